package rules

import (
	"fmt"
	"go/token"
	"go/types"
	"sort"
	"strings"

	"golang.org/x/tools/go/ssa"

	"semaverif/internal/core"
	"semaverif/internal/load"
	"semaverif/internal/ssax"
)

// caseSuccs: for a function that compares value-of-interest with string
// constants, the true-edge successor of each `x == "const"` test.
// switchHeads remembers, per function, the test blocks found by caseSuccs so
// that region computation can stop at the head of the switch (loops).
var switchTests = map[*ssa.Function][]*ssa.BasicBlock{}

func caseSuccs(f *ssa.Function, accept func(cmpOperand ssa.Value) bool) map[string][]*ssa.BasicBlock {
	out := map[string][]*ssa.BasicBlock{}
	defer func() {
		var tests []*ssa.BasicBlock
		for _, b := range f.Blocks {
			if ifi, ok := b.Instrs[len(b.Instrs)-1].(*ssa.If); ok {
				if bo, ok := ifi.Cond.(*ssa.BinOp); ok && bo.Op == token.EQL {
					for _, pr := range [][2]ssa.Value{{bo.X, bo.Y}, {bo.Y, bo.X}} {
						if _, ok := ssax.ConstString(pr[1]); ok && accept(pr[0]) {
							tests = append(tests, b)
						}
					}
				}
			}
		}
		switchTests[f] = tests
	}()
	for _, b := range f.Blocks {
		ifi, ok := b.Instrs[len(b.Instrs)-1].(*ssa.If)
		if !ok {
			continue
		}
		bo, ok := ifi.Cond.(*ssa.BinOp)
		if !ok || bo.Op != token.EQL {
			continue
		}
		for _, pr := range [][2]ssa.Value{{bo.X, bo.Y}, {bo.Y, bo.X}} {
			if s, ok := ssax.ConstString(pr[1]); ok && accept(pr[0]) {
				out[s] = append(out[s], b.Succs[0])
			}
		}
	}
	return out
}

func reachSet(from []*ssa.BasicBlock) map[*ssa.BasicBlock]bool {
	seen := map[*ssa.BasicBlock]bool{}
	// the head of the switch: the test block that dominates every other test block
	var head *ssa.BasicBlock
	if len(from) > 0 {
		tests := switchTests[from[0].Parent()]
		for _, t := range tests {
			all := true
			for _, u := range tests {
				if t != u && !t.Dominates(u) {
					all = false
				}
			}
			if all {
				head = t
			}
		}
	}
	var dfs func(b *ssa.BasicBlock)
	dfs = func(b *ssa.BasicBlock) {
		if seen[b] || b == head {
			return
		}
		seen[b] = true
		for _, s := range b.Succs {
			dfs(s)
		}
	}
	for _, b := range from {
		dfs(b)
	}
	return seen
}

// caseRegions: blocks reachable from a case's entry but not from every case's entry.
func caseRegions(cs map[string][]*ssa.BasicBlock) map[string]map[*ssa.BasicBlock]bool {
	reach := map[string]map[*ssa.BasicBlock]bool{}
	for k, bs := range cs {
		reach[k] = reachSet(bs)
	}
	common := map[*ssa.BasicBlock]bool{}
	first := true
	for _, r := range reach {
		if first {
			for b := range r {
				common[b] = true
			}
			first = false
			continue
		}
		for b := range common {
			if !r[b] {
				delete(common, b)
			}
		}
	}
	out := map[string]map[*ssa.BasicBlock]bool{}
	for k, r := range reach {
		out[k] = map[*ssa.BasicBlock]bool{}
		for b := range r {
			if !common[b] || len(reach) == 1 {
				out[k][b] = true
			}
		}
	}
	return out
}

// ------------------------------------------------------------------ OPTABLE

func OpTable(w *load.World, c *core.Collector) {
	props := []string{"C02"}
	var f *ssa.Function
	for _, g := range w.Fns {
		if load.FnKey(g) == "(*shard/index/inverted.IndexInverted[T]).Search" && g.Parent() == nil {
			f = g
		}
	}
	if f == nil {
		c.Add("OPTABLE", "anchor:Search", core.Undecided, "", "IndexInverted.Search not found", props...)
		return
	}
	f = unwrapThin(f) // Search may only take the lock and call the function that does the work
	// Search(inv, query T, endQuery T, operator string): positions, not names
	var opParam *ssa.Parameter
	if len(f.Params) == 4 {
		if bt, ok := f.Params[3].Type().Underlying().(*types.Basic); ok && bt.Kind() == types.String {
			opParam = f.Params[3]
		}
	}
	pQuery, pEnd := "", ""
	if len(f.Params) == 4 {
		pQuery, pEnd = "param:"+f.Params[1].Name(), "param:"+f.Params[2].Name()
	}
	if opParam == nil {
		c.Add("OPTABLE", "anchor:operator-param", core.Undecided, w.Position(f.Pos()), "operator parameter not found", props...)
		return
	}
	cs := caseSuccs(f, func(v ssa.Value) bool { p, _ := ssax.Path(v); return p == opParam.Name() })
	regions := caseRegions(cs)
	var scan *ssa.Call
	for _, b := range f.Blocks {
		for _, in := range b.Instrs {
			if call, ok := in.(*ssa.Call); ok && call.Call.IsInvoke() && call.Call.Method.Name() == "RangeScan" {
				scan = call
			}
		}
	}
	if scan == nil {
		c.Add("OPTABLE", "anchor:RangeScan", core.Undecided, w.Position(f.Pos()), "no RangeScan call in Search", props...)
		return
	}
	// Partial evaluation of Search with the operator fixed to one constant: branches on the
	// operator are decided, error branches of fallible calls are not taken, phis are resolved by
	// the edge actually travelled. What reaches RangeScan on that run is what the operator scans.
	// A helper of the package that receives the operator and hands back the bounds
	// ("lower, upper, closed, err := rangeBounds(operator, key, endQuery)") is evaluated the same
	// way, with its parameters standing for the caller's arguments.
	type peCtx struct {
		fn      *ssa.Function
		op      ssa.Value // the operator in fn
		parent  *peCtx
		args    []ssa.Value            // caller's arguments (resolved in the caller) when parent != nil
		pchoice map[*ssa.Phi]ssa.Value // the caller's phi choices at the call
	}
	type pePath struct {
		scanArgs []ssa.Value // set when the path reached the scan
		ret      *ssa.Return
		choice   map[*ssa.Phi]ssa.Value
	}
	resolve := func(v ssa.Value, choice map[*ssa.Phi]ssa.Value) ssa.Value {
		for depth := 0; depth < 8; depth++ {
			phi, ok := v.(*ssa.Phi)
			if !ok {
				break
			}
			e, ok := choice[phi]
			if !ok {
				break
			}
			v = e
		}
		return v
	}
	// up: a parameter of a helper stands for the caller's argument
	var up func(ctx *peCtx, v ssa.Value, choice map[*ssa.Phi]ssa.Value) (*peCtx, ssa.Value, map[*ssa.Phi]ssa.Value)
	up = func(ctx *peCtx, v ssa.Value, choice map[*ssa.Phi]ssa.Value) (*peCtx, ssa.Value, map[*ssa.Phi]ssa.Value) {
		v = resolve(v, choice)
		for ctx.parent != nil {
			p, ok := peelToParam(v).(*ssa.Parameter)
			if !ok {
				break
			}
			idx := -1
			for i, q := range ctx.fn.Params {
				if q == p {
					idx = i
				}
			}
			if idx < 0 || idx >= len(ctx.args) {
				break
			}
			v, choice, ctx = resolve(ctx.args[idx], ctx.pchoice), ctx.pchoice, ctx.parent
		}
		return ctx, v, choice
	}
	isOp := func(ctx *peCtx, v ssa.Value, choice map[*ssa.Phi]ssa.Value) bool {
		c2, v2, _ := up(ctx, v, choice)
		return c2.parent == nil && v2 == ssa.Value(opParam) || v2 == c2.op
	}
	var evalBool func(ctx *peCtx, opConst string, v ssa.Value, choice map[*ssa.Phi]ssa.Value, depth int) (bool, bool)
	evalBool = func(ctx *peCtx, opConst string, v ssa.Value, choice map[*ssa.Phi]ssa.Value, depth int) (bool, bool) {
		ctx, v, choice = up(ctx, v, choice)
		if b, ok := ssax.ConstBool(v); ok {
			return b, true
		}
		if depth > 6 {
			return false, false
		}
		switch x := v.(type) {
		case *ssa.UnOp:
			if x.Op == token.NOT {
				if b, ok := evalBool(ctx, opConst, x.X, choice, depth+1); ok {
					return !b, true
				}
			}
		case *ssa.BinOp:
			if x.Op == token.EQL || x.Op == token.NEQ {
				var cs string
				var ok bool
				switch {
				case isOp(ctx, x.X, choice):
					cs, ok = ssax.ConstString(resolve(x.Y, choice))
				case isOp(ctx, x.Y, choice):
					cs, ok = ssax.ConstString(resolve(x.X, choice))
				}
				if ok {
					return (cs == opConst) == (x.Op == token.EQL), true
				}
			}
		}
		return false, false
	}
	errorOnly := func(b *ssa.BasicBlock) bool {
		// the block (possibly after straight-line code) returns a non-nil error
		for i := 0; i < 4 && b != nil; i++ {
			last := b.Instrs[len(b.Instrs)-1]
			if r, ok := last.(*ssa.Return); ok {
				for j := range r.Results {
					if isErrorType(r.Results[j].Type()) && nonNilError(ssax.ReturnOperand(r, j), b) {
						return true
					}
				}
				return false
			}
			if _, ok := last.(*ssa.Jump); ok {
				b = b.Succs[0]
				continue
			}
			return false
		}
		return false
	}
	run := func(ctx *peCtx, opConst string) ([]pePath, string) {
		var out []pePath
		note := ""
		type frame struct {
			b, pred *ssa.BasicBlock
			choice  map[*ssa.Phi]ssa.Value
			steps   int
		}
		if len(ctx.fn.Blocks) == 0 {
			return nil, "no body"
		}
		work := []frame{{ctx.fn.Blocks[0], nil, map[*ssa.Phi]ssa.Value{}, 0}}
		for len(work) > 0 {
			fr := work[len(work)-1]
			work = work[:len(work)-1]
			if fr.steps > 200 {
				note = "step limit"
				continue
			}
			choice := fr.choice
			stop := false
			for _, in := range fr.b.Instrs {
				switch x := in.(type) {
				case *ssa.Phi:
					for i, p := range fr.b.Preds {
						if p == fr.pred {
							choice[x] = x.Edges[i]
						}
					}
				case *ssa.Call:
					if x == scan && ctx.parent == nil {
						out = append(out, pePath{scanArgs: x.Call.Args, choice: choice})
						stop = true
					}
				case *ssa.Return:
					if ctx.parent != nil {
						failing := false
						for j := range x.Results {
							if isErrorType(x.Results[j].Type()) && nonNilError(ssax.ReturnOperand(x, j), fr.b) {
								failing = true
							}
						}
						if !failing {
							out = append(out, pePath{ret: x, choice: choice})
						}
					}
					stop = true
				}
				if stop {
					break
				}
			}
			if stop {
				continue
			}
			switch last := fr.b.Instrs[len(fr.b.Instrs)-1].(type) {
			case *ssa.If:
				next := func(s int) {
					nc := map[*ssa.Phi]ssa.Value{}
					for k, v := range choice {
						nc[k] = v
					}
					work = append(work, frame{fr.b.Succs[s], fr.b, nc, fr.steps + 1})
				}
				if b, ok := evalBool(ctx, opConst, last.Cond, choice, 0); ok {
					if b {
						next(0)
					} else {
						next(1)
					}
					break
				}
				e0, e1 := errorOnly(fr.b.Succs[0]), errorOnly(fr.b.Succs[1])
				switch {
				case e0 && !e1:
					next(1)
				case e1 && !e0:
					next(0)
				default:
					next(0)
					next(1)
				}
			case *ssa.Jump:
				work = append(work, frame{fr.b.Succs[0], fr.b, choice, fr.steps + 1})
			}
		}
		return out, note
	}
	// the labels of a value in terms of the root function's parameters
	var labels func(ctx *peCtx, v ssa.Value, choice map[*ssa.Phi]ssa.Value, depth int) map[string]bool
	labels = func(ctx *peCtx, v ssa.Value, choice map[*ssa.Phi]ssa.Value, depth int) map[string]bool {
		ctx, v, choice = up(ctx, v, choice)
		out := map[string]bool{}
		for k := range ssax.Prov(v) {
			mapped := false
			if ctx.parent != nil && depth < 4 && strings.HasPrefix(k, "param:") {
				for i, q := range ctx.fn.Params {
					if "param:"+q.Name() == k && i < len(ctx.args) {
						for kk := range labels(ctx.parent, ctx.args[i], ctx.pchoice, depth+1) {
							out[kk] = true
						}
						mapped = true
					}
				}
			}
			if !mapped {
				out[k] = true
			}
		}
		return out
	}
	describe := func(ctx *peCtx, v ssa.Value, choice map[*ssa.Phi]ssa.Value) string {
		_, rv, _ := up(ctx, v, choice)
		if ssax.IsNilConst(rv) {
			return "nil"
		}
		if b, ok := ssax.ConstBool(rv); ok {
			return fmt.Sprint(b)
		}
		o := labels(ctx, v, choice, 0)
		isKey := false
		var ks []string
		for k := range o {
			ks = append(ks, k)
			if strings.Contains(k, "toByteSortable") {
				isKey = true
			}
		}
		sort.Strings(ks)
		switch {
		case isKey && o[pQuery] && !o[pEnd]:
			return "key(value)"
		case isKey && o[pEnd] && !o[pQuery]:
			return "key(endValue)"
		}
		return "?" + strings.Join(ks, ",")
	}
	type triple [3]string
	root := &peCtx{fn: f, op: opParam}
	runFor := func(opConst string) (map[triple]bool, string) {
		results := map[triple]bool{}
		paths, note := run(root, opConst)
		for _, pth := range paths {
			if pth.scanArgs == nil {
				continue
			}
			// a helper call that supplies the scan's arguments
			var helper *ssa.Call
			for k := 0; k < 3; k++ {
				if ex, ok := resolve(pth.scanArgs[k], pth.choice).(*ssa.Extract); ok {
					if hc, ok := ex.Tuple.(*ssa.Call); ok && hc.Call.StaticCallee() != nil && ssax.InModule(hc.Call.StaticCallee()) && load.PkgPath(hc.Call.StaticCallee()) == load.PkgPath(f) {
						// only a helper that is handed the operator decides on it
						for _, a := range hc.Call.Args {
							if resolve(a, pth.choice) == ssa.Value(opParam) {
								helper = hc
							}
						}
					}
				}
			}
			type argEval struct {
				ctx    *peCtx
				choice map[*ssa.Phi]ssa.Value
				ret    *ssa.Return
			}
			evals := []argEval{{root, pth.choice, nil}}
			if helper != nil {
				g := helper.Call.StaticCallee()
				hctx := &peCtx{fn: g, parent: root, args: helper.Call.Args, pchoice: pth.choice}
				for i, a := range helper.Call.Args {
					if i < len(g.Params) && resolve(a, pth.choice) == ssa.Value(opParam) {
						hctx.op = g.Params[i]
					}
				}
				hp, hnote := run(hctx, opConst)
				if hnote != "" {
					note = hnote
				}
				evals = nil
				for _, h := range hp {
					evals = append(evals, argEval{hctx, h.choice, h.ret})
				}
			}
			for _, ev := range evals {
				var t triple
				for k := 0; k < 3; k++ {
					v := resolve(pth.scanArgs[k], pth.choice)
					ctx, choice := root, pth.choice
					if ex, ok := v.(*ssa.Extract); ok && helper != nil && ex.Tuple == ssa.Value(helper) && ev.ret != nil && ex.Index < len(ev.ret.Results) {
						v, ctx, choice = ssax.ReturnOperand(ev.ret, ex.Index), ev.ctx, ev.choice
					}
					if k == 2 {
						if b, ok := evalBool(ctx, opConst, v, choice, 0); ok {
							t[k] = fmt.Sprint(b)
							continue
						}
					}
					t[k] = describe(ctx, v, choice)
				}
				results[t] = true
			}
		}
		return results, note
	}
	want := map[string][3]string{
		"greaterThan":         {"key(value)", "nil", "false"},
		"greaterThanOrEquals": {"key(value)", "nil", "true"},
		"lessThan":            {"nil", "key(value)", "false"},
		"lessThanOrEquals":    {"nil", "key(value)", "true"},
		"inRange":             {"key(value)", "key(endValue)", "true"},
	}
	var ops []string
	for k := range want {
		ops = append(ops, k)
	}
	sort.Strings(ops)
	for _, op := range ops {
		res, note := runFor(op)
		if len(res) == 0 {
			c.Add("OPTABLE", "range:"+op, core.Violation, w.Position(f.Pos()), "with operator "+op+" the index search never reaches a range scan "+note, props...)
			continue
		}
		okAll := true
		var gots []string
		for t := range res {
			gots = append(gots, fmt.Sprintf("start=%s end=%s inclusive=%s", t[0], t[1], t[2]))
			if [3]string(t) != want[op] {
				okAll = false
			}
		}
		sort.Strings(gots)
		if okAll {
			c.Add("OPTABLE", "range:"+op, core.OK, w.At(scan), gots[0], props...)
		} else {
			c.Add("OPTABLE", "range:"+op, core.Violation, w.At(scan),
				fmt.Sprintf("operator %s scans %s, its meaning is start=%s end=%s inclusive=%s", op, strings.Join(gots, " or "), want[op][0], want[op][1], want[op][2]), props...)
		}
	}
	// equals / startsWith / notEquals use exactly key(value)
	check := func(op, method string) {
		region := regions[op]
		found, good := false, false
		for b := range region {
			for _, in := range b.Instrs {
				call, ok := in.(*ssa.Call)
				if !ok {
					continue
				}
				name := ""
				if call.Call.IsInvoke() {
					name = call.Call.Method.Name()
				} else if g := call.Call.StaticCallee(); g != nil {
					name = g.Name()
				}
				if name != method {
					continue
				}
				found = true
				for _, a := range call.Call.Args {
					o := ssax.Prov(a)
					if o[pQuery] && !o[pEnd] {
						good = true
					}
					if mc, ok := a.(*ssa.MakeClosure); ok {
						for _, bnd := range mc.Bindings {
							ob := ssax.Prov(bnd)
							if ob[pQuery] && !ob[pEnd] {
								good = true
							}
						}
					}
				}
			}
		}
		key := "point:" + op
		switch {
		case !found:
			c.Add("OPTABLE", key, core.Violation, w.Position(f.Pos()), fmt.Sprintf("operator %s does not use %s", op, method), props...)
		case !good:
			c.Add("OPTABLE", key, core.Violation, w.Position(f.Pos()), fmt.Sprintf("operator %s is not evaluated on the query value", op), props...)
		default:
			c.Add("OPTABLE", key, core.OK, w.Position(f.Pos()), "", props...)
		}
	}
	check("equals", "getSetCacheItem")
	check("startsWith", "PrefixScan")
	check("notEquals", "ForEach")
}

// ------------------------------------------------------------------ TYPETAB

func typeKey(t types.Type) string {
	return types.TypeString(t, func(p *types.Package) string { return p.Name() })
}

func TypeTab(w *load.World, c *core.Collector) {
	props := []string{"C18"}
	fams := enums(w)
	idx := fams["IndexType"]
	cm := findFn(w, "(models.IndexSchema).CheckCompatibleMap")
	dr := findFn(w, "(shard/index.indexManager).getDrainFn")
	se := findFn(w, "(shard/index.indexManager).Search")
	if cm == nil || dr == nil || se == nil {
		c.Add("TYPETAB", "anchor", core.Undecided, "", "CheckCompatibleMap / getDrainFn / Search not found", props...)
		return
	}
	isTag := func(v ssa.Value) bool {
		p, _ := ssax.Path(v)
		return strings.HasSuffix(strings.ReplaceAll(p, "*", ""), ".Type") || strings.HasSuffix(p, "itype") || strings.Contains(p, "Type")
	}
	// side A: normalised types (the switch may live in a helper of the validator)
	norm := map[string]map[string]bool{}
	cm = homeOf(cm, func(g *ssa.Function) bool { return len(caseRegions(caseSuccs(g, isTag))) >= 4 })
	regA := caseRegions(caseSuccs(cm, isTag))
	for val := range idx.Values {
		set := map[string]bool{}
		asserted := map[string]bool{}
		for b := range regA[val] {
			for _, in := range b.Instrs {
				switch x := in.(type) {
				case *ssa.MapUpdate:
					if mi, ok := x.Value.(*ssa.MakeInterface); ok {
						set[typeKey(mi.X.Type())] = true
					}
				case *ssa.Return:
					// the normalised value handed back to the caller, which stores it
					if len(x.Results) > 0 {
						if mi, ok := x.Results[0].(*ssa.MakeInterface); ok {
							set[typeKey(mi.X.Type())] = true
						}
					}
				case *ssa.TypeAssert:
					if x.CommaOk {
						asserted[typeKey(x.AssertedType)] = true
					}
				}
			}
		}
		if len(set) == 0 {
			set = asserted
		}
		norm[val] = set
	}
	// side B: types the dispatcher's pre-processing asserts
	cons := map[string]map[string]bool{}
	regB := caseRegions(caseSuccs(dr, isTag))
	var consumerOf func(fn *ssa.Function, seen map[*ssa.Function]bool) map[string]bool
	consumerOf = func(fn *ssa.Function, seen map[*ssa.Function]bool) map[string]bool {
		out := map[string]bool{}
		if fn == nil || seen[fn] || fn.Blocks == nil {
			return out
		}
		seen[fn] = true
		for _, b := range fn.Blocks {
			for _, in := range b.Instrs {
				for _, op := range in.Operands(nil) {
					g, ok := (*op).(*ssa.Function)
					if !ok || !load.InMod(g) {
						continue
					}
					name := g.Name()
					if o := g.Origin(); o != nil {
						name = o.Name()
					}
					switch name {
					case "preProcessInverted":
						out[typeKey(g.TypeArgs()[0])] = true
					case "preProcessInvertedArray":
						out["[]"+typeKey(g.TypeArgs()[0])] = true
					case "preProcessVamana", "preProcessText":
						for k := range consumerOf(g, seen) {
							out[k] = true
						}
					case "castDataToArray":
						out["[]"+typeKey(g.TypeArgs()[0])] = true
					}
				}
				if ta, ok := in.(*ssa.TypeAssert); ok && strings.HasPrefix(fn.Name(), "preProcess") {
					out[typeKey(ta.AssertedType)] = true
				}
				if mc, ok := in.(*ssa.MakeClosure); ok {
					for k := range consumerOf(mc.Fn.(*ssa.Function), seen) {
						out[k] = true
					}
				}
			}
		}
		return out
	}
	for val := range idx.Values {
		set := map[string]bool{}
		for b := range regB[val] {
			for _, in := range b.Instrs {
				if mc, ok := in.(*ssa.MakeClosure); ok {
					for k := range consumerOf(mc.Fn.(*ssa.Function), map[*ssa.Function]bool{}) {
						set[k] = true
					}
				}
				// a drain constructor of this package that wires the pre-processing itself
				if g := ssax.StaticModuleCallee(in); g != nil && load.PkgPath(g) == load.PkgPath(dr) && g != dr {
					for k := range consumerOf(g, map[*ssa.Function]bool{}) {
						set[k] = true
					}
				}
				// pre-processing functions handed on as values (to a generic drain helper)
				for k := range classifyOperands(in, consumerOf) {
					set[k] = true
				}
			}
		}
		cons[val] = set
	}
	// index instantiations on both sides
	instOf := func(f *ssa.Function, reg map[string]map[*ssa.BasicBlock]bool) map[string]map[string]bool {
		out := map[string]map[string]bool{}
		for val := range idx.Values {
			out[val] = map[string]bool{}
			for b := range reg[val] {
				for _, in := range b.Instrs {
					if call, ok := in.(*ssa.Call); ok {
						if g := call.Call.StaticCallee(); g != nil && g.Origin() != nil && strings.HasPrefix(g.Origin().Name(), "NewIndexInverted") && len(g.TypeArgs()) > 0 {
							out[val][typeKey(g.TypeArgs()[0])] = true
						} else if g != nil && load.InMod(g) && load.PkgPath(g) == load.PkgPath(f) && g != f {
							// a sub-dispatcher that receives the tag: what it instantiates when the tag has this value
							for i, a := range call.Call.Args {
								if i >= len(g.Params) || !isTag(a) {
									continue
								}
								if bt, ok := a.Type().Underlying().(*types.Basic); !ok || bt.Info()&types.IsString == 0 {
									continue
								}
								for hb := range blocksGiven(g, g.Params[i], val) {
									for _, hin := range hb.Instrs {
										if hc, ok := hin.(*ssa.Call); ok {
											if h := hc.Call.StaticCallee(); h != nil && h.Origin() != nil && strings.HasPrefix(h.Origin().Name(), "NewIndexInverted") && len(h.TypeArgs()) > 0 {
												out[val][typeKey(h.TypeArgs()[0])] = true
											}
										}
									}
								}
							}
						}
					}
				}
			}
		}
		return out
	}
	instB := instOf(dr, regB)
	instC := instOf(se, caseRegions(caseSuccs(se, isTag)))
	var vals []string
	for v := range idx.Values {
		vals = append(vals, v)
	}
	sort.Strings(vals)
	for _, val := range vals {
		key := "normalised-vs-asserted:" + val
		if len(norm[val]) == 0 || len(cons[val]) == 0 {
			c.Add("TYPETAB", key, core.Undecided, w.Position(cm.Pos()), fmt.Sprintf("could not extract both tables (validator %s, dispatcher %s)", setStr(norm[val]), setStr(cons[val])), props...)
			continue
		}
		if setStr(norm[val]) == setStr(cons[val]) {
			c.Add("TYPETAB", key, core.OK, w.Position(dr.Pos()), setStr(norm[val]), props...)
		} else {
			c.Add("TYPETAB", key, core.Violation, w.Position(dr.Pos()),
				fmt.Sprintf("validation normalises %s values to %s but the index dispatcher asserts %s: a valid point would be rejected inside the write transaction", val, setStr(norm[val]), setStr(cons[val])), props...)
		}
		if len(instB[val]) > 0 || len(instC[val]) > 0 {
			k2 := "index-key-type:" + val
			if setStr(instB[val]) == setStr(instC[val]) {
				c.Add("TYPETAB", k2, core.OK, w.Position(se.Pos()), setStr(instB[val]), props...)
			} else {
				c.Add("TYPETAB", k2, core.Violation, w.Position(se.Pos()), fmt.Sprintf("the %s index is written with key type %s and searched with %s", val, setStr(instB[val]), setStr(instC[val])), props...)
			}
		}
	}
}

// classifyOperands: the types asserted by pre-processing functions that the
// instruction mentions as function values (directly, or as bound method values).
func classifyOperands(in ssa.Instruction, consumerOf func(*ssa.Function, map[*ssa.Function]bool) map[string]bool) map[string]bool {
	out := map[string]bool{}
	for _, op := range in.Operands(nil) {
		var g *ssa.Function
		switch x := (*op).(type) {
		case *ssa.Function:
			g = x
		case *ssa.MakeClosure:
			g, _ = x.Fn.(*ssa.Function)
		}
		if g == nil || !load.InMod(g) {
			continue
		}
		name := g.Name()
		if o := g.Origin(); o != nil {
			name = o.Name()
		}
		name = strings.TrimSuffix(name, "$bound")
		switch {
		case name == "preProcessInverted" && len(g.TypeArgs()) > 0:
			out[typeKey(g.TypeArgs()[0])] = true
		case name == "preProcessInvertedArray" && len(g.TypeArgs()) > 0:
			out["[]"+typeKey(g.TypeArgs()[0])] = true
		case strings.HasPrefix(name, "preProcess"):
			for k := range consumerOf(g, map[*ssa.Function]bool{}) {
				out[k] = true
			}
		}
	}
	return out
}

// blocksGiven: the blocks of g that can execute when its string parameter p has the value val:
// reachability from the entry in which a comparison of p with a constant takes only the
// edge that agrees with val.
func blocksGiven(g *ssa.Function, p *ssa.Parameter, val string) map[*ssa.BasicBlock]bool {
	seen := map[*ssa.BasicBlock]bool{}
	if len(g.Blocks) == 0 {
		return seen
	}
	var dfs func(b *ssa.BasicBlock)
	dfs = func(b *ssa.BasicBlock) {
		if seen[b] {
			return
		}
		seen[b] = true
		if ifi, ok := b.Instrs[len(b.Instrs)-1].(*ssa.If); ok {
			if bo, ok := ifi.Cond.(*ssa.BinOp); ok && (bo.Op == token.EQL || bo.Op == token.NEQ) {
				for _, pr := range [][2]ssa.Value{{bo.X, bo.Y}, {bo.Y, bo.X}} {
					if cs, ok := ssax.ConstString(pr[1]); ok && peelToParam(pr[0]) == ssa.Value(p) {
						holds := (cs == val) == (bo.Op == token.EQL)
						if holds {
							dfs(b.Succs[0])
						} else {
							dfs(b.Succs[1])
						}
						return
					}
				}
			}
		}
		for _, s := range b.Succs {
			dfs(s)
		}
	}
	dfs(g.Blocks[0])
	return seen
}
