package rules

import (
	"fmt"
	"go/constant"
	"go/token"
	"go/types"
	"regexp"
	"sort"
	"strings"

	"golang.org/x/tools/go/ssa"

	"semaverif/internal/core"
	"semaverif/internal/load"
	"semaverif/internal/lockset"
	"semaverif/internal/ssax"
)

// ---------------------------------------------------------------- DEADSTORE
//
// A value assigned to a field of a function-local struct variable that nothing
// reads afterwards is a lost update: typically the variable was already copied
// (into an interface, a context, a request) and the assignment was meant for
// the copy. The rule reports a store into a field of a local, non-escaping
// struct variable from which no read of that variable is reachable. It decides
// a necessary condition of several properties at once (a limit bound to the
// request after the request was copied is never enforced: C18; a destination
// set on a template after the template was copied: C13/C17), so obligations
// are grouped per package and tagged with the properties that package serves.

func lintProps(pkg string) []string {
	switch {
	case strings.Contains(pkg, "/httpapi"), strings.HasSuffix(pkg, "/models"):
		return []string{"C18"}
	case strings.HasSuffix(pkg, "/cluster"):
		return []string{"C17", "C13"}
	case strings.Contains(pkg, "/shard/cache"):
		return []string{"C11"}
	case strings.HasSuffix(pkg, "/shard/index/text"):
		return []string{"C05"}
	case strings.HasSuffix(pkg, "/shard/index/vamana"):
		return []string{"C03", "C10"}
	case strings.HasSuffix(pkg, "/shard/index/flat"):
		return []string{"C04"}
	case strings.HasSuffix(pkg, "/shard/index"):
		return []string{"C02", "C06"}
	case strings.Contains(pkg, "/shard/index"):
		return []string{"C02"}
	case strings.HasSuffix(pkg, "/shard/vectorstore"):
		return []string{"C04"}
	case strings.HasSuffix(pkg, "/shard"), strings.HasSuffix(pkg, "/shard/pointstore"):
		return []string{"C01"}
	default:
		// packages that serve none of the properties (configuration, generators, tools)
		return nil
	}
}

// escapesAlloc: the address of the local variable itself is handed to something
// that may read it later in ways the function's own instructions do not show.
func escapesAlloc(al *ssa.Alloc) bool {
	for _, r := range *al.Referrers() {
		switch x := r.(type) {
		case *ssa.FieldAddr, *ssa.IndexAddr, *ssa.DebugRef:
		case *ssa.UnOp:
			// a load of the whole value: a read, not an escape
		case *ssa.Store:
			if x.Val == ssa.Value(al) {
				return true
			}
		default:
			return true
		}
	}
	// addresses of fields that escape
	for _, r := range *al.Referrers() {
		fa, ok := r.(*ssa.FieldAddr)
		if !ok {
			continue
		}
		for _, rr := range *fa.Referrers() {
			switch y := rr.(type) {
			case *ssa.Store:
				if y.Val == ssa.Value(fa) {
					return true
				}
			case *ssa.UnOp, *ssa.FieldAddr, *ssa.IndexAddr, *ssa.DebugRef:
			default:
				return true
			}
		}
	}
	return false
}

func DeadStore(w *load.World, c *core.Collector) {
	type hit struct{ where, what string }
	per := map[string][]hit{}
	seenPkg := map[string]bool{}
	n := 0
	for _, f := range w.Fns {
		if !load.InMod(f) || f.Synthetic != "" {
			continue
		}
		pkg := load.PkgPath(f)
		seenPkg[pkg] = true
		for _, b := range f.Blocks {
			for idx, in := range b.Instrs {
				st, ok := in.(*ssa.Store)
				if !ok {
					continue
				}
				fa, ok := st.Addr.(*ssa.FieldAddr)
				if !ok {
					continue
				}
				al, ok := fa.X.(*ssa.Alloc)
				if !ok || al.Heap && escapesAlloc(al) || escapesAlloc(al) {
					continue
				}
				if _, isStruct := al.Type().Underlying().(*types.Pointer).Elem().Underlying().(*types.Struct); !isStruct {
					continue
				}
				// composite literals initialise temporaries field by field: those are read by the
				// load that follows; only named variables are of interest
				if al.Comment == "complit" || al.Comment == "" {
					continue
				}
				n++
				// is a read of the variable reachable after the store?
				reads := map[ssa.Instruction]bool{}
				for _, r := range *al.Referrers() {
					switch x := r.(type) {
					case *ssa.UnOp:
						reads[x] = true
					case *ssa.FieldAddr:
						for _, rr := range *x.Referrers() {
							if _, isStore := rr.(*ssa.Store); !isStore {
								reads[rr] = true
							}
						}
					case *ssa.IndexAddr:
						for _, rr := range *x.Referrers() {
							if _, isStore := rr.(*ssa.Store); !isStore {
								reads[rr] = true
							}
						}
					}
				}
				live := false
				for _, later := range b.Instrs[idx+1:] {
					if reads[later] {
						live = true
					}
				}
				if !live {
					seen := map[*ssa.BasicBlock]bool{}
					var dfs func(bb *ssa.BasicBlock)
					dfs = func(bb *ssa.BasicBlock) {
						if seen[bb] || live {
							return
						}
						seen[bb] = true
						for _, x := range bb.Instrs {
							if reads[x] {
								live = true
								return
							}
						}
						for _, s := range bb.Succs {
							dfs(s)
						}
					}
					for _, s := range b.Succs {
						dfs(s)
					}
				}
				// a named result is read by the return
				if !live && f.Signature.Results() != nil {
					for i := 0; i < f.Signature.Results().Len(); i++ {
						if f.Signature.Results().At(i).Name() == al.Comment && al.Comment != "" {
							live = true
						}
					}
				}
				if !live {
					st2 := ssax.StructOf(fa.X.Type())
					per[pkg] = append(per[pkg], hit{w.At(in), fmt.Sprintf("%s.%s is assigned in %s but the variable is never read afterwards (it was copied before?): the assignment is lost", al.Comment, st2.Field(fa.Field).Name(), load.FnKey(f))})
				}
			}
		}
	}
	c.Count("field_stores_to_local_structs", n)
	var pkgs []string
	for p := range seenPkg {
		pkgs = append(pkgs, p)
	}
	sort.Strings(pkgs)
	for _, p := range pkgs {
		if lintProps(p) == nil {
			continue
		}
		key := "lost-update:" + load.Short(p)
		hs := per[p]
		if len(hs) == 0 {
			c.Add("DEADSTORE", key, core.OK, "", "", lintProps(p)...)
			continue
		}
		sort.Slice(hs, func(i, j int) bool { return hs[i].where < hs[j].where })
		var parts []string
		for _, h := range hs {
			parts = append(parts, h.where+": "+h.what)
		}
		c.Add("DEADSTORE", key, core.Violation, hs[0].where, strings.Join(parts, "; "), lintProps(p)...)
	}
}

// ---------------------------------------------------------------- GOCAPTURE
//
// A goroutine started in a loop that reads a variable the loop itself keeps
// assigning (a variable declared outside the loop and captured by reference)
// sees whatever value the loop has reached when the goroutine gets to run:
// requests are sent to the destination of another shard, results are stored
// under another index. Per-iteration variables (declared in the loop body, or
// the loop variables themselves since Go 1.22) are fresh cells and are fine.

func GoCapture(w *load.World, c *core.Collector) {
	type hit struct{ where, what string }
	per := map[string][]hit{}
	seenPkg := map[string]bool{}
	n := 0
	inCycle := func(a, b *ssa.BasicBlock) bool { return ssax.Reaches(a, b) && ssax.Reaches(b, a) }
	for _, f := range w.Fns {
		if !load.InMod(f) {
			continue
		}
		pkg := load.PkgPath(f)
		for _, b := range f.Blocks {
			for _, in := range b.Instrs {
				g, ok := in.(*ssa.Go)
				if !ok {
					continue
				}
				mc, ok := g.Call.Value.(*ssa.MakeClosure)
				if !ok {
					continue
				}
				lit, _ := mc.Fn.(*ssa.Function)
				if lit == nil || !inLoop(b) {
					continue
				}
				seenPkg[pkg] = true
				n++
				for i, bnd := range mc.Bindings {
					cell, ok := bnd.(*ssa.Alloc)
					if !ok || i >= len(lit.FreeVars) {
						continue
					}
					// declared outside the loop: the allocation is not part of the cycle of the go statement
					if inCycle(cell.Block(), b) {
						continue
					}
					// does the literal read it?
					readsIt := false
					for _, r := range *lit.FreeVars[i].Referrers() {
						switch x := r.(type) {
						case *ssa.UnOp:
							readsIt = true
						case *ssa.FieldAddr:
							for _, rr := range *x.Referrers() {
								if _, isStore := rr.(*ssa.Store); !isStore {
									readsIt = true
								}
							}
						}
					}
					if !readsIt {
						continue
					}
					// does the loop (outside the literal) assign it?
					for _, stBlk := range storeBlocksInto(cell, 0) {
						if stBlk == nil || !inCycle(stBlk, b) {
							continue
						}
						// a mutex-protected accumulator is written by the goroutines themselves, not by the loop
						per[pkg] = append(per[pkg], hit{w.At(in), fmt.Sprintf("the goroutine started here reads %s, which is declared outside the loop and assigned again by every iteration (%s): it may see the value of a later iteration", cell.Comment, w.Position(stBlk.Instrs[0].Pos()))})
						break
					}
				}
			}
		}
	}
	c.Count("goroutines_started_in_loops", n)
	var pkgs []string
	for p := range seenPkg {
		pkgs = append(pkgs, p)
	}
	sort.Strings(pkgs)
	for _, p := range pkgs {
		key := "loop-shared:" + load.Short(p)
		props := []string{"C09"}
		if strings.HasSuffix(p, "/cluster") {
			props = []string{"C17", "C13"}
		}
		hs := per[p]
		if len(hs) == 0 {
			c.Add("GOCAPTURE", key, core.OK, "", "", props...)
			continue
		}
		sort.Slice(hs, func(i, j int) bool { return hs[i].where < hs[j].where })
		var parts []string
		for _, h := range hs {
			parts = append(parts, h.where+": "+h.what)
		}
		c.Add("GOCAPTURE", key, core.Violation, hs[0].where, strings.Join(dedupe(parts), "; "), props...)
	}
}

var _ = token.ADD

// storeBlocksInto: the blocks of the stores into a variable or into any field or element of it.
func storeBlocksInto(addr ssa.Value, depth int) []*ssa.BasicBlock {
	if depth > 4 || addr.Referrers() == nil {
		return nil
	}
	var out []*ssa.BasicBlock
	for _, r := range *addr.Referrers() {
		switch x := r.(type) {
		case *ssa.Store:
			if x.Addr == addr {
				out = append(out, x.Block())
			}
		case *ssa.FieldAddr:
			out = append(out, storeBlocksInto(x, depth+1)...)
		case *ssa.IndexAddr:
			out = append(out, storeBlocksInto(x, depth+1)...)
		}
	}
	return out
}

// ------------------------------------------------------------ SKIPPEDEFFECT
//
// "flag = flag || set.CheckedRemove(id)": once the flag is true the right-hand
// side is not evaluated, and with it the removal it was written for. A call
// that changes something and whose result only feeds the short-circuit value
// of && or || must not sit on the side that can be skipped. In SSA: a call to
// a mutating function whose result is an incoming value of a boolean phi that
// also has a constant incoming value (the short-circuit), and whose block does
// not dominate the phi: there is a way to the phi around the call. Only the
// accumulating form is reported — the condition that skips the call is the old
// value of the very variable the result is assigned to ("x = x || f()");
// "ok := cond && f()" with an unrelated cond is a deliberate conditional call.

var mutatorNames = []string{"Checked", "Add", "Remove", "Delete", "Put", "Set", "Flip", "Clear", "Insert", "Append", "Push", "Pop", "Store", "Write", "Flush", "Update"}

func mutatingCallee(call *ssa.Call) (string, bool) {
	name := ""
	if call.Call.IsInvoke() {
		name = call.Call.Method.Name()
	} else if g := call.Call.StaticCallee(); g != nil {
		name = g.Name()
	}
	for _, m := range mutatorNames {
		if strings.HasPrefix(name, m) {
			return name, true
		}
	}
	return name, false
}

func SkippedEffect(w *load.World, c *core.Collector) {
	type hit struct{ where, what string }
	per := map[string][]hit{}
	seenPkg := map[string]bool{}
	n := 0
	for _, f := range w.Fns {
		if !load.InMod(f) || f.Synthetic != "" {
			continue
		}
		pkg := load.PkgPath(f)
		seenPkg[pkg] = true
		for _, b := range f.Blocks {
			for _, in := range b.Instrs {
				phi, ok := in.(*ssa.Phi)
				if !ok {
					continue
				}
				if bt, ok := phi.Type().Underlying().(*types.Basic); !ok || bt.Kind() != types.Bool {
					continue
				}
				hasConst := false
				for _, e := range phi.Edges {
					if _, isC := e.(*ssa.Const); isC {
						hasConst = true
					}
				}
				if !hasConst {
					continue
				}
				n++
				for _, e := range phi.Edges {
					call, ok := e.(*ssa.Call)
					if !ok {
						continue
					}
					name, mut := mutatingCallee(call)
					if !mut || call.Block().Dominates(b) || !accumulates(phi) {
						continue
					}
					per[pkg] = append(per[pkg], hit{w.At(call), fmt.Sprintf("%s changes state but is only evaluated when the left-hand side of the && / || it stands in does not already decide the result: the change is skipped on that path", name)})
				}
			}
		}
	}
	c.Count("short_circuit_values", n)
	var pkgs []string
	for p := range seenPkg {
		pkgs = append(pkgs, p)
	}
	sort.Strings(pkgs)
	for _, p := range pkgs {
		props := lintProps(p)
		if props == nil {
			continue
		}
		key := "short-circuit:" + load.Short(p)
		hs := per[p]
		if len(hs) == 0 {
			c.Add("SKIPPEDEFFECT", key, core.OK, "", "", props...)
			continue
		}
		sort.Slice(hs, func(i, j int) bool { return hs[i].where < hs[j].where })
		var parts []string
		for _, h := range hs {
			parts = append(parts, h.where+": "+h.what)
		}
		c.Add("SKIPPEDEFFECT", key, core.Violation, hs[0].where, strings.Join(parts, "; "), props...)
	}
}

// accumulates: the short-circuit condition of the boolean phi is the previous value of the
// variable the phi is assigned to: a load of the address it is stored to, or a phi that it feeds.
func accumulates(phi *ssa.Phi) bool {
	b := phi.Block()
	for i, e := range phi.Edges {
		if _, isC := e.(*ssa.Const); !isC {
			continue
		}
		pred := b.Preds[i]
		ifi, ok := pred.Instrs[len(pred.Instrs)-1].(*ssa.If)
		if !ok {
			continue
		}
		cond := ifi.Cond
		if u, ok := cond.(*ssa.UnOp); ok && u.Op == token.NOT {
			cond = u.X
		}
		// (a) stored to the address the condition was loaded from
		if ld, ok := cond.(*ssa.UnOp); ok && ld.Op == token.MUL {
			lp, _ := ssax.Path(ld.X)
			for _, r := range *phi.Referrers() {
				if st, ok := r.(*ssa.Store); ok && st.Val == ssa.Value(phi) {
					if sp, _ := ssax.Path(st.Addr); st.Addr == ld.X || (sp != "" && sp == lp) {
						return true
					}
				}
			}
		}
		// (b) a loop-carried variable: the condition is a phi that this one feeds
		if cp, ok := cond.(*ssa.Phi); ok {
			for _, ce := range cp.Edges {
				if ce == ssa.Value(phi) {
					return true
				}
			}
		}
	}
	return false
}

// ---------------------------------------------------------------- ELEMPTR
//
// "m[id] = &results[len(results)-1]" while results keeps growing by append in
// the same loop: the first append that outgrows the capacity moves the
// elements, the pointers kept in the map still point into the old array, and
// what is written through them (scores added for a point found again) never
// reaches the slice that is returned. Reported: the address of an element of a
// slice variable is stored into a map, a field or another slice inside a loop
// in which that same variable is assigned the result of an append.

func ElemPtr(w *load.World, c *core.Collector) {
	type hit struct{ where, what string }
	per := map[string][]hit{}
	seenPkg := map[string]bool{}
	n := 0
	for _, f := range w.Fns {
		if !load.InMod(f) || f.Synthetic != "" {
			continue
		}
		pkg := load.PkgPath(f)
		seenPkg[pkg] = true
		// the slice variables: values connected by phis and by append (result ~ first argument)
		parent := map[ssa.Value]ssa.Value{}
		var find func(v ssa.Value) ssa.Value
		find = func(v ssa.Value) ssa.Value {
			p, ok := parent[v]
			if !ok || p == v {
				parent[v] = v
				return v
			}
			r := find(p)
			parent[v] = r
			return r
		}
		union := func(a, b ssa.Value) { parent[find(a)] = find(b) }
		var appends []*ssa.Call
		for _, b := range f.Blocks {
			for _, in := range b.Instrs {
				switch x := in.(type) {
				case *ssa.Phi:
					if _, isSlice := x.Type().Underlying().(*types.Slice); isSlice {
						for _, e := range x.Edges {
							union(x, e)
						}
					}
				case *ssa.Call:
					if bi, ok := x.Call.Value.(*ssa.Builtin); ok && bi.Name() == "append" && len(x.Call.Args) > 0 {
						union(x, x.Call.Args[0])
						appends = append(appends, x)
					}
				}
			}
		}
		if len(appends) == 0 {
			continue
		}
		for _, b := range f.Blocks {
			for _, in := range b.Instrs {
				var kept ssa.Value
				switch x := in.(type) {
				case *ssa.MapUpdate:
					kept = x.Value
				case *ssa.Store:
					if _, local := x.Addr.(*ssa.Alloc); !local {
						kept = x.Val
					}
				}
				ia, ok := kept.(*ssa.IndexAddr)
				if !ok {
					continue
				}
				if _, isSlice := ia.X.Type().Underlying().(*types.Slice); !isSlice {
					continue
				}
				n++
				for _, a := range appends {
					if find(a) != find(ia.X) {
						continue
					}
					// the keep and the append are on one cycle
					if ssax.Reaches(b, a.Block()) && ssax.Reaches(a.Block(), b) && inLoop(b) {
						per[pkg] = append(per[pkg], hit{w.At(in), fmt.Sprintf("a pointer to an element of a slice is kept here while the loop goes on appending to that slice (%s): when append reallocates, the pointer is left pointing into the old array and updates made through it are lost", w.At(a))})
						break
					}
				}
			}
		}
	}
	c.Count("element_pointers_kept", n)
	var pkgs []string
	for p := range seenPkg {
		pkgs = append(pkgs, p)
	}
	sort.Strings(pkgs)
	for _, p := range pkgs {
		props := lintProps(p)
		if props == nil {
			continue
		}
		key := "kept-across-append:" + load.Short(p)
		hs := per[p]
		if len(hs) == 0 {
			c.Add("ELEMPTR", key, core.OK, "", "", props...)
			continue
		}
		sort.Slice(hs, func(i, j int) bool { return hs[i].where < hs[j].where })
		var parts []string
		for _, h := range hs {
			parts = append(parts, h.where+": "+h.what)
		}
		c.Add("ELEMPTR", key, core.Violation, hs[0].where, strings.Join(dedupe(parts), "; "), props...)
	}
}

// ---------------------------------------------------------------- WGWAIT
//
// A function that starts goroutines which report to a local sync.WaitGroup
// owns them: they use what the function was given (buckets of the caller's
// read transaction, the caller's slices). It must not return while they run:
// every return that can follow a go statement is behind wg.Wait() called by the
// function itself — a Wait moved into yet another goroutine (to select on it
// together with ctx.Done()) does not hold the function back.

func WgWait(w *load.World, c *core.Collector) {
	n := 0
	for _, f := range w.Fns {
		if !load.InMod(f) || f.Synthetic != "" {
			continue
		}
		for _, b := range f.Blocks {
			for _, in := range b.Instrs {
				wg, ok := in.(*ssa.Alloc)
				if !ok || ssax.TypeName(wg.Type()) != "sync.WaitGroup" {
					continue
				}
				// goroutines started here that call Done on it
				var gos []*ssa.Go
				for _, gb := range f.Blocks {
					for _, gi := range gb.Instrs {
						g, ok := gi.(*ssa.Go)
						if !ok {
							continue
						}
						mc, ok := g.Call.Value.(*ssa.MakeClosure)
						if !ok {
							continue
						}
						lit, _ := mc.Fn.(*ssa.Function)
						if lit == nil {
							continue
						}
						for i, bnd := range mc.Bindings {
							if bnd != ssa.Value(wg) || i >= len(lit.FreeVars) {
								continue
							}
							for _, r := range *lit.FreeVars[i].Referrers() {
								switch x := r.(type) {
								case *ssa.Call:
									if x.Call.StaticCallee() != nil && x.Call.StaticCallee().Name() == "Done" {
										gos = append(gos, g)
									}
								case *ssa.Defer:
									if x.Call.StaticCallee() != nil && x.Call.StaticCallee().Name() == "Done" {
										gos = append(gos, g)
									}
								}
							}
						}
					}
				}
				if len(gos) == 0 {
					continue
				}
				// a function that hands back a channel is a pipeline stage: its completion is the
				// closing of that channel, which its callers wait for (rule JOIN)
				returnsChan := false
				for i := 0; i < f.Signature.Results().Len(); i++ {
					if _, isChan := f.Signature.Results().At(i).Type().Underlying().(*types.Chan); isChan {
						returnsChan = true
					}
				}
				if returnsChan {
					continue
				}
				n++
				barrier, banned := wgBarriers(w, f, wg, 0)
				isBanned := func(b *ssa.BasicBlock, i int) bool {
					for _, e := range banned {
						if e.From == b && e.Succ == i {
							return true
						}
					}
					return false
				}
				bad := ""
				for _, rb := range f.Blocks {
					ret, ok := rb.Instrs[len(rb.Instrs)-1].(*ssa.Return)
					if !ok {
						continue
					}
					for _, g := range gos {
						// from the go statement to the return without such an event
						seen := map[*ssa.BasicBlock]bool{}
						var dfs func(x *ssa.BasicBlock, first bool) bool
						dfs = func(x *ssa.BasicBlock, first bool) bool {
							if ev, isB := barrier[x]; isB && !(first && ssax.Precedes(ev, g)) {
								return false
							}
							if x == rb {
								return true
							}
							if seen[x] {
								return false
							}
							seen[x] = true
							for i, s := range x.Succs {
								if isBanned(x, i) {
									continue
								}
								if dfs(s, false) {
									return true
								}
							}
							return false
						}
						if dfs(g.Block(), true) {
							bad = w.At(ret)
						}
					}
				}
				props := []string{"C09"}
				if strings.HasSuffix(load.PkgPath(f), "/cluster") {
					props = []string{"C17"}
				}
				key := "waits:" + load.FnKey(f)
				if bad != "" {
					c.Add("WGWAIT", key, core.Violation, bad, "the function can return while goroutines it started (and that report to its WaitGroup) are still running: they go on using the transaction, buckets and slices of a caller that has moved on", props...)
				} else {
					c.Add("WGWAIT", key, core.OK, w.At(gos[0]), "", props...)
				}
			}
		}
	}
	c.Count("waitgroup_owners", n)
	if n < 4 {
		c.Add("WGWAIT", "anchor", core.Undecided, "", fmt.Sprintf("found %d functions that start goroutines on a local WaitGroup, expected at least 4", n), "C09", "C17")
	}
}

// ------------------------------------------------------------- TEMPLATEMAP
//
// "req = baseReq; req.Dest = d; ...; req.KeyValues[k] = v": copying a struct
// copies its map field as a reference. When the template lives outside the loop
// (or outside the callback that runs once per record) every copy made from it
// writes into the one map of the template: each destination's request ends up
// with the records of all destinations. Reported: an update of a map reached
// through a field of a struct variable that was assigned, as a whole, the value
// of a variable of an enclosing scope (a captured variable, or one declared
// outside the loop), unless that field was given a map of its own afterwards.

func TemplateMap(w *load.World, c *core.Collector) {
	type hit struct{ where, what string }
	per := map[string][]hit{}
	seenPkg := map[string]bool{}
	n := 0
	for _, f := range w.Fns {
		if !load.InMod(f) || f.Synthetic != "" {
			continue
		}
		pkg := load.PkgPath(f)
		seenPkg[pkg] = true
		for _, b := range f.Blocks {
			for _, in := range b.Instrs {
				mu, ok := in.(*ssa.MapUpdate)
				if !ok {
					continue
				}
				ld, ok := mu.Map.(*ssa.UnOp)
				if !ok || ld.Op != token.MUL {
					continue
				}
				fa, ok := ld.X.(*ssa.FieldAddr)
				if !ok {
					continue
				}
				a, ok := fa.X.(*ssa.Alloc)
				if !ok {
					continue
				}
				n++
				// whole-struct copies into a from a variable of an enclosing scope
				for _, r := range *a.Referrers() {
					st, ok := r.(*ssa.Store)
					if !ok || st.Addr != ssa.Value(a) {
						continue
					}
					src, ok := st.Val.(*ssa.UnOp)
					if !ok || src.Op != token.MUL {
						continue
					}
					outer := false
					name := ""
					switch t := src.X.(type) {
					case *ssa.FreeVar:
						outer, name = true, t.Name()
					case *ssa.Alloc:
						// declared outside the loop in which the copy is made
						if t != a && inLoop(st.Block()) && !(ssax.Reaches(t.Block(), st.Block()) && ssax.Reaches(st.Block(), t.Block())) {
							outer, name = true, t.Comment
						}
					}
					if !outer {
						continue
					}
					// the field is given its own map after the copy, before the update
					own := false
					for _, r2 := range *a.Referrers() {
						fa2, ok := r2.(*ssa.FieldAddr)
						if !ok || fa2.Field != fa.Field {
							continue
						}
						for _, r3 := range *fa2.Referrers() {
							if s3, ok := r3.(*ssa.Store); ok && s3.Addr == ssa.Value(fa2) {
								if (s3.Block() == st.Block() && ssax.Precedes(st, s3) || s3.Block() != st.Block() && st.Block().Dominates(s3.Block())) && (s3.Block() == b && ssax.Precedes(s3, mu) || s3.Block() != b && ssax.Reaches(s3.Block(), b)) {
									own = true
								}
							}
						}
					}
					if own {
						continue
					}
					stt := ssax.StructOf(a.Type())
					per[pkg] = append(per[pkg], hit{w.At(mu), fmt.Sprintf("the map %s.%s updated here is the one of %s, from which %s was copied as a whole (%s): every copy of the template shares that map, entries meant for one copy show up in all", a.Comment, stt.Field(fa.Field).Name(), name, a.Comment, w.At(st))})
				}
			}
		}
	}
	c.Count("map_updates_through_struct_fields", n)
	var pkgs []string
	for p := range seenPkg {
		pkgs = append(pkgs, p)
	}
	sort.Strings(pkgs)
	for _, p := range pkgs {
		props := lintProps(p)
		if props == nil {
			continue
		}
		if strings.HasSuffix(p, "/cluster") {
			props = append(append([]string{}, props...), "C14")
		}
		key := "shared-template-map:" + load.Short(p)
		hs := per[p]
		if len(hs) == 0 {
			c.Add("TEMPLATEMAP", key, core.OK, "", "", props...)
			continue
		}
		sort.Slice(hs, func(i, j int) bool { return hs[i].where < hs[j].where })
		var parts []string
		for _, h := range hs {
			parts = append(parts, h.where+": "+h.what)
		}
		c.Add("TEMPLATEMAP", key, core.Violation, hs[0].where, strings.Join(dedupe(parts), "; "), props...)
	}
}

// =========================================================================
// Small lints added after the fourth blind round. Each reports a shape that is
// wrong wherever it occurs; the pinned tree has no instance of any of them, the
// corpus has at least one blind positive example for each.

type lintHit struct{ where, what string }

func emitLint(c *core.Collector, rule, keyPrefix string, seenPkg map[string]bool, per map[string][]lintHit, extra func(pkg string) []string) {
	var pkgs []string
	for p := range seenPkg {
		pkgs = append(pkgs, p)
	}
	sort.Strings(pkgs)
	for _, p := range pkgs {
		props := lintProps(p)
		if extra != nil {
			props = append(append([]string{}, props...), extra(p)...)
		}
		if len(props) == 0 {
			continue
		}
		key := keyPrefix + ":" + load.Short(p)
		hs := per[p]
		if len(hs) == 0 {
			c.Add(rule, key, core.OK, "", "", props...)
			continue
		}
		sort.Slice(hs, func(i, j int) bool { return hs[i].where < hs[j].where })
		var parts []string
		for _, h := range hs {
			parts = append(parts, h.where+": "+h.what)
		}
		c.Add(rule, key, core.Violation, hs[0].where, strings.Join(dedupe(parts), "; "), props...)
	}
}

func staticName(call ssa.CallInstruction) string {
	if g := call.Common().StaticCallee(); g != nil {
		return g.String()
	}
	return ""
}

// SPRINTEQ: two values are compared by comparing their fmt.Sprint renderings. The rendering is
// not injective ([]string{"a b"} and []string{"a","b"} print alike), so "unchanged" is concluded
// for values that differ.
func SprintEq(w *load.World, c *core.Collector) {
	per := map[string][]lintHit{}
	seen := map[string]bool{}
	isSprint := func(v ssa.Value) bool {
		call, ok := v.(*ssa.Call)
		if !ok {
			return false
		}
		n := staticName(call)
		return n == "fmt.Sprint" || n == "fmt.Sprintf" || n == "fmt.Sprintln"
	}
	for _, f := range w.Fns {
		if !load.InMod(f) || f.Synthetic != "" {
			continue
		}
		pkg := load.PkgPath(f)
		seen[pkg] = true
		for _, b := range f.Blocks {
			for _, in := range b.Instrs {
				if bo, ok := in.(*ssa.BinOp); ok && (bo.Op == token.EQL || bo.Op == token.NEQ) && isSprint(bo.X) && isSprint(bo.Y) {
					per[pkg] = append(per[pkg], lintHit{w.At(in), "two values are taken for equal when fmt.Sprint renders them alike: the rendering does not tell [\"a b\"] from [\"a\" \"b\"], a change between such values is missed"})
				}
			}
		}
	}
	emitLint(c, "SPRINTEQ", "rendered-equality", seen, per, nil)
}

// POOLESCAPE: a function gives an object back to a sync.Pool (also by defer) and returns memory of
// that object: the next Get hands the same memory to someone else while the caller still uses it.
func PoolEscape(w *load.World, c *core.Collector) {
	per := map[string][]lintHit{}
	seen := map[string]bool{}
	for _, f := range w.Fns {
		if !load.InMod(f) || f.Synthetic != "" {
			continue
		}
		pkg := load.PkgPath(f)
		seen[pkg] = true
		var put []ssa.Value
		for _, b := range f.Blocks {
			for _, in := range b.Instrs {
				ci, ok := in.(ssa.CallInstruction)
				if !ok || staticName(ci) != "(*sync.Pool).Put" || len(ci.Common().Args) < 2 {
					continue
				}
				v := ci.Common().Args[1]
				if mi, ok := v.(*ssa.MakeInterface); ok {
					v = mi.X
				}
				put = append(put, v)
			}
		}
		if len(put) == 0 {
			continue
		}
		derives := func(v ssa.Value) bool {
			for i := 0; i < 8 && v != nil; i++ {
				for _, p := range put {
					if v == p {
						return true
					}
				}
				switch x := v.(type) {
				case *ssa.Slice:
					v = x.X
				case *ssa.IndexAddr:
					v = x.X
				case *ssa.FieldAddr:
					v = x.X
				case *ssa.ChangeType:
					v = x.X
				case *ssa.Convert:
					v = x.X
				case *ssa.UnOp:
					v = x.X
				case *ssa.Phi:
					for _, e := range x.Edges {
						for _, p := range put {
							if e == p {
								return true
							}
						}
					}
					return false
				default:
					return false
				}
			}
			return false
		}
		for _, b := range f.Blocks {
			if r, ok := b.Instrs[len(b.Instrs)-1].(*ssa.Return); ok {
				for i := range r.Results {
					rv := ssax.ReturnOperand(r, i)
					if _, isPtrOrSlice := rv.Type().Underlying().(*types.Basic); isPtrOrSlice {
						continue
					}
					if derives(rv) {
						per[pkg] = append(per[pkg], lintHit{w.At(r), "the function returns memory of an object it has given back to a sync.Pool: the next caller of Get writes into what this caller still holds"})
					}
				}
			}
		}
	}
	emitLint(c, "POOLESCAPE", "returned-after-put", seen, per, nil)
}

// REGEXANCHOR: a validation pattern that is anchored at the start but not at the end accepts any
// tail: "^[a-z0-9]{3,24}" matches "abc/../../other".
func RegexAnchor(w *load.World, c *core.Collector) {
	per := map[string][]lintHit{}
	seen := map[string]bool{}
	for _, f := range w.Fns {
		if !load.InMod(f) {
			continue
		}
		pkg := load.PkgPath(f)
		seen[pkg] = true
		for _, b := range f.Blocks {
			for _, in := range b.Instrs {
				ci, ok := in.(ssa.CallInstruction)
				if !ok {
					continue
				}
				n := staticName(ci)
				if n != "regexp.MustCompile" && n != "regexp.Compile" && n != "regexp.MatchString" && n != "regexp.Match" {
					continue
				}
				pat, ok := ssax.ConstString(ci.Common().Args[0])
				if !ok {
					continue
				}
				if strings.HasPrefix(pat, "^") && !strings.HasSuffix(pat, "$") && !strings.HasSuffix(pat, "\\z") {
					per[pkg] = append(per[pkg], lintHit{w.At(in), fmt.Sprintf("the pattern %q is anchored at the start only: whatever follows a matching head is accepted", pat)})
				}
			}
		}
	}
	emitLint(c, "REGEXANCHOR", "open-ended-pattern", seen, per, func(p string) []string {
		if strings.Contains(p, "/httpapi") {
			return []string{"C16"}
		}
		return nil
	})
}

// HANDLERSHARED: an HTTP handler literal (w http.ResponseWriter, r *http.Request) assigns to a
// variable of the function that built it. That function runs once, the literal once per request,
// concurrently: the requests share the variable (one tenant's id is overwritten by another's).
func HandlerShared(w *load.World, c *core.Collector) {
	per := map[string][]lintHit{}
	seen := map[string]bool{}
	isHandler := func(f *ssa.Function) bool {
		ps := f.Signature.Params()
		return f.Parent() != nil && ps.Len() == 2 && strings.HasSuffix(ps.At(0).Type().String(), "net/http.ResponseWriter") && strings.HasSuffix(ps.At(1).Type().String(), "net/http.Request")
	}
	for _, f := range w.Fns {
		if !load.InMod(f) || !isHandler(f) {
			continue
		}
		pkg := load.PkgPath(f)
		seen[pkg] = true
		for _, fv := range f.FreeVars {
			if len(storeBlocksInto(fv, 0)) > 0 {
				per[pkg] = append(per[pkg], lintHit{w.Position(f.Pos()), fmt.Sprintf("the request handler assigns to %s, a variable of the function that created the handler: all requests share it, and two that overlap see each other's value", fv.Name())})
			}
		}
	}
	for _, f := range w.Fns {
		if load.InMod(f) && strings.Contains(load.PkgPath(f), "/httpapi") {
			seen[load.PkgPath(f)] = true
		}
	}
	emitLint(c, "HANDLERSHARED", "captured-write", seen, per, func(p string) []string {
		if strings.Contains(p, "/httpapi") {
			return []string{"C16"}
		}
		return nil
	})
}

// RECVSTORE: a method with a value receiver assigns to a field of the receiver. The caller's
// value is not changed: a default "filled in" by a validator is gone when the validator returns,
// and what is stored is the value that was never valid.
func RecvStore(w *load.World, c *core.Collector) {
	per := map[string][]lintHit{}
	seen := map[string]bool{}
	for _, f := range w.Fns {
		if !load.InMod(f) || f.Synthetic != "" || f.Signature.Recv() == nil || len(f.Params) == 0 {
			continue
		}
		pkg := load.PkgPath(f)
		seen[pkg] = true
		if _, isPtr := f.Signature.Recv().Type().Underlying().(*types.Pointer); isPtr {
			continue
		}
		if _, isStruct := f.Signature.Recv().Type().Underlying().(*types.Struct); !isStruct {
			continue
		}
		recv := f.Params[0]
		// the receiver is spilled into a cell when its fields are assigned
		for _, r := range *recv.Referrers() {
			st, ok := r.(*ssa.Store)
			if !ok || st.Val != ssa.Value(recv) {
				continue
			}
			cell, ok := st.Addr.(*ssa.Alloc)
			if !ok || escapesAlloc(cell) {
				continue
			}
			// the whole value handed on (returned, passed, stored) keeps the assignment alive
			handedOn := false
			for _, cr := range *cell.Referrers() {
				if ld, ok := cr.(*ssa.UnOp); ok && ld.Op == token.MUL {
					for _, lr := range *ld.Referrers() {
						switch lr.(type) {
						case *ssa.Return, *ssa.Store, *ssa.Call, *ssa.MakeInterface, *ssa.Send, *ssa.MapUpdate:
							handedOn = true
						}
					}
				}
			}
			if handedOn {
				continue
			}
			for _, cr := range *cell.Referrers() {
				fa, ok := cr.(*ssa.FieldAddr)
				if !ok {
					continue
				}
				for _, fr := range *fa.Referrers() {
					if s2, ok := fr.(*ssa.Store); ok && s2.Addr == ssa.Value(fa) {
						stt := ssax.StructOf(cell.Type())
						per[pkg] = append(per[pkg], lintHit{w.At(s2), fmt.Sprintf("%s assigns to %s.%s, but its receiver is a copy: the caller's value keeps what it had (a default filled in here is lost, the unvalidated value is what gets stored)", load.FnKey(f), recv.Name(), stt.Field(fa.Field).Name())})
					}
				}
			}
		}
	}
	emitLint(c, "RECVSTORE", "value-receiver-assignment", seen, per, nil)
}

// TRYLOCKSKIP: "if !mu.TryLock() { return nil }": when somebody else holds the lock the function
// reports success without having done (or waited for) the work the lock protects.
func TryLockSkip(w *load.World, c *core.Collector) {
	per := map[string][]lintHit{}
	seen := map[string]bool{}
	for _, f := range w.Fns {
		if !load.InMod(f) || f.Synthetic != "" {
			continue
		}
		pkg := load.PkgPath(f)
		seen[pkg] = true
		for _, b := range f.Blocks {
			ifi, ok := b.Instrs[len(b.Instrs)-1].(*ssa.If)
			if !ok {
				continue
			}
			cond, neg := ifi.Cond, false
			if u, ok := cond.(*ssa.UnOp); ok && u.Op == token.NOT {
				cond, neg = u.X, true
			}
			call, ok := cond.(*ssa.Call)
			if !ok {
				continue
			}
			n := staticName(call)
			if n != "(*sync.Mutex).TryLock" && n != "(*sync.RWMutex).TryLock" && n != "(*sync.RWMutex).TryRLock" {
				continue
			}
			failed := b.Succs[1]
			if neg {
				failed = b.Succs[0]
			}
			// the failed side does nothing but return success
			onlyReturn := true
			var ret *ssa.Return
			for _, in := range failed.Instrs {
				switch x := in.(type) {
				case *ssa.Return:
					ret = x
				case *ssa.RunDefers, *ssa.DebugRef, *ssa.Store, *ssa.UnOp:
				default:
					onlyReturn = false
				}
			}
			if !onlyReturn || ret == nil {
				continue
			}
			success := true
			for i := range ret.Results {
				rv := ssax.ReturnOperand(ret, i)
				if isErrorType(rv.Type()) && !ssax.IsNilConst(rv) {
					success = false
				}
				if cb, isC := ssax.ConstBool(rv); isC && !cb {
					success = false // reports "not acquired": a try-like function itself
				}
			}
			if success && len(ret.Results) > 0 {
				per[pkg] = append(per[pkg], lintHit{w.At(call), "when the lock is held by someone else the function returns success at once: the caller goes on as if the protected work were done, while it may still be in progress"})
			}
		}
	}
	emitLint(c, "TRYLOCKSKIP", "success-without-lock", seen, per, nil)
}

// LOSSYCMP: two 64-bit integers are converted to float64 and then compared. Above 2^53 distinct
// integers convert to the same float: they compare equal, an order built on it has ties that are
// not ties.
func LossyCmp(w *load.World, c *core.Collector) {
	per := map[string][]lintHit{}
	seen := map[string]bool{}
	isWideIntToFloat := func(v ssa.Value, depth int) bool {
		var rec func(v ssa.Value, depth int) bool
		rec = func(v ssa.Value, depth int) bool {
			if depth > 3 {
				return false
			}
			switch x := v.(type) {
			case *ssa.Convert:
				from, ok1 := x.X.Type().Underlying().(*types.Basic)
				to, ok2 := x.Type().Underlying().(*types.Basic)
				if ok1 && ok2 && to.Info()&types.IsFloat != 0 && from.Info()&types.IsInteger != 0 {
					switch from.Kind() {
					case types.Int64, types.Uint64, types.Int, types.Uint, types.Uintptr:
						return true
					}
				}
			case *ssa.Phi:
				for _, e := range x.Edges {
					if rec(e, depth+1) {
						return true
					}
				}
			case *ssa.Call:
				// a helper that widens its argument
				if g := x.Call.StaticCallee(); g != nil && ssax.InModule(g) {
					for _, gb := range g.Blocks {
						if r, ok := gb.Instrs[len(gb.Instrs)-1].(*ssa.Return); ok && len(r.Results) > 0 && rec(r.Results[0], depth+1) {
							return true
						}
					}
				}
			case *ssa.Extract:
				if call, ok := x.Tuple.(*ssa.Call); ok {
					if g := call.Call.StaticCallee(); g != nil && ssax.InModule(g) {
						for _, gb := range g.Blocks {
							if r, ok := gb.Instrs[len(gb.Instrs)-1].(*ssa.Return); ok && x.Index < len(r.Results) && rec(r.Results[x.Index], depth+1) {
								return true
							}
						}
					}
				}
			}
			return false
		}
		return rec(v, depth)
	}
	for _, f := range w.Fns {
		if !load.InMod(f) || f.Synthetic != "" {
			continue
		}
		pkg := load.PkgPath(f)
		seen[pkg] = true
		for _, b := range f.Blocks {
			for _, in := range b.Instrs {
				var x, y ssa.Value
				switch v := in.(type) {
				case *ssa.BinOp:
					switch v.Op {
					case token.LSS, token.GTR, token.LEQ, token.GEQ, token.EQL, token.NEQ:
						x, y = v.X, v.Y
					}
				case *ssa.Call:
					if strings.HasPrefix(staticName(v), "cmp.Compare") && len(v.Call.Args) == 2 {
						x, y = v.Call.Args[0], v.Call.Args[1]
					}
				}
				if x == nil {
					continue
				}
				if isWideIntToFloat(x, 0) && isWideIntToFloat(y, 0) {
					per[pkg] = append(per[pkg], lintHit{w.At(in), "two 64-bit integers are compared after both were converted to float64: above 2^53 different integers become the same float and compare equal"})
				}
			}
		}
	}
	emitLint(c, "LOSSYCMP", "integers-through-float", seen, per, func(p string) []string {
		if strings.HasSuffix(p, "/utils") {
			return []string{"C06"}
		}
		return nil
	})
}

// TXSHADOW: inside the callback of a storage write transaction, a field of the long-lived object
// that owns the store (the Shard, the ClusterNode) is assigned — directly, or by a method of that
// object called from the callback. The storage engine rolls the buckets back when the callback or
// the commit fails; nothing rolls the field back. In-memory state that mirrors stored state (a
// cached point count, an id allocator kept between requests) then disagrees with the store after
// the first failed batch.
func TxShadow(w *load.World, c *core.Collector) {
	per := map[string][]lintHit{}
	seen := map[string]bool{}
	n := 0
	for _, cb := range txCallbacks(w) {
		if !cb.Write || cb.Fn.Parent() == nil {
			continue
		}
		pkg := load.PkgPath(cb.Fn)
		seen[pkg] = true
		n++
		// the owner: the receiver of the method that starts the transaction, captured by the callback
		root := cb.Fn
		for root.Parent() != nil {
			root = root.Parent()
		}
		if root.Signature.Recv() == nil || len(root.Params) == 0 {
			continue
		}
		recvT := root.Signature.Recv().Type()
		isOwner := func(v ssa.Value) bool {
			for i := 0; i < 6 && v != nil; i++ {
				switch x := v.(type) {
				case *ssa.FreeVar:
					return types.Identical(x.Type(), recvT) || types.Identical(x.Type(), types.NewPointer(recvT))
				case *ssa.Parameter:
					return x == root.Params[0]
				case *ssa.UnOp:
					v = x.X
				case *ssa.FieldAddr:
					// a nested struct held by value is still the owner's memory; a pointer field leads elsewhere
					if _, isPtr := x.X.Type().Underlying().(*types.Pointer).Elem().Underlying().(*types.Struct); !isPtr {
						return false
					}
					v = x.X
				default:
					return false
				}
			}
			return false
		}
		var scan func(fn *ssa.Function, ownerIs func(ssa.Value) bool, depth int, via string)
		scan = func(fn *ssa.Function, ownerIs func(ssa.Value) bool, depth int, via string) {
			for _, b := range fn.Blocks {
				for _, in := range b.Instrs {
					switch x := in.(type) {
					case *ssa.Store:
						if fa, ok := x.Addr.(*ssa.FieldAddr); ok && ownerIs(fa.X) {
							st := ssax.StructOf(fa.X.Type())
							// synchronisation primitives and atomics are not mirrored state
							ft := st.Field(fa.Field).Type().String()
							if strings.HasPrefix(ft, "sync.") || strings.HasPrefix(ft, "sync/atomic.") {
								continue
							}
							per[pkg] = append(per[pkg], lintHit{w.At(x), fmt.Sprintf("%s.%s is assigned inside a storage write transaction%s: if the transaction is rolled back the field keeps the value of the batch that did not happen", ssax.TypeName(fa.X.Type()), st.Field(fa.Field).Name(), via)})
						}
					case *ssa.Call:
						g := x.Call.StaticCallee()
						if g != nil && strings.HasPrefix(g.String(), "(*sync/atomic.") && len(x.Call.Args) > 0 {
							switch g.Name() {
							case "Store", "Add", "Swap", "CompareAndSwap", "And", "Or":
								if fa, ok := x.Call.Args[0].(*ssa.FieldAddr); ok && ownerIs(fa.X) {
									st := ssax.StructOf(fa.X.Type())
									per[pkg] = append(per[pkg], lintHit{w.At(x), fmt.Sprintf("%s.%s is updated (atomic %s) inside a storage write transaction%s: if the transaction is rolled back the field keeps the value of the batch that did not happen", ssax.TypeName(fa.X.Type()), st.Field(fa.Field).Name(), g.Name(), via)})
								}
							}
							continue
						}
						if g == nil || depth > 0 || !ssax.InModule(g) || g.Signature.Recv() == nil || len(x.Call.Args) == 0 || !ownerIs(x.Call.Args[0]) || len(g.Params) == 0 {
							continue
						}
						gp := g.Params[0]
						scan(g, func(v ssa.Value) bool {
							for i := 0; i < 4 && v != nil; i++ {
								if v == ssa.Value(gp) {
									return true
								}
								if u, ok := v.(*ssa.UnOp); ok {
									v = u.X
									continue
								}
								return false
							}
							return false
						}, depth+1, " (by "+load.FnKey(g)+", called from the callback at "+w.At(x)+")")
					}
				}
			}
			if depth == 0 {
				for _, lit := range fn.AnonFuncs {
					scan(lit, ownerIs, depth, via)
				}
			}
		}
		scan(cb.Fn, isOwner, 0, "")
	}
	c.Count("write_callbacks_scanned_for_owner_state", n)
	emitLint(c, "TXSHADOW", "owner-state-in-transaction", seen, per, func(p string) []string {
		switch {
		case strings.HasSuffix(p, "/shard"):
			return []string{"C07", "C15"}
		case strings.HasSuffix(p, "/cluster"):
			return []string{"C15"}
		}
		return nil
	})
}

// wgBarriers: the events in f after which the goroutines reporting to the WaitGroup wg (a local
// variable or a parameter of f) have finished: Wait called by f itself; a receive from a channel
// that a goroutine of f closes (or sends on) after Wait; a call of a helper that is given the
// WaitGroup and does not return before such an event.
func wgBarriers(w *load.World, f *ssa.Function, wg ssa.Value, depth int) (map[*ssa.BasicBlock]ssa.Instruction, []ssax.Edge) {
	barrier := map[*ssa.BasicBlock]ssa.Instruction{}
	var banned []ssax.Edge
	if wg.Referrers() == nil {
		return barrier, banned
	}
	for _, r := range *wg.Referrers() {
		call, ok := r.(*ssa.Call)
		if !ok || call.Call.StaticCallee() == nil {
			continue
		}
		if call.Call.StaticCallee().Name() == "Wait" && strings.Contains(call.Call.StaticCallee().String(), "sync.WaitGroup") {
			barrier[call.Block()] = call
			continue
		}
		// handed to a helper that waits
		g := call.Call.StaticCallee()
		if depth < 2 && ssax.InModule(g) && len(g.Blocks) > 0 {
			for i, a := range call.Call.Args {
				if a != wg || i >= len(g.Params) {
					continue
				}
				gb, gbanned := wgBarriers(w, g, g.Params[i], depth+1)
				if len(gb) == 0 && len(gbanned) == 0 {
					continue
				}
				// every return of the helper is behind one of its barriers
				isBanned := func(b *ssa.BasicBlock, k int) bool {
					for _, e := range gbanned {
						if e.From == b && e.Succ == k {
							return true
						}
					}
					return false
				}
				all := true
				for _, rb := range g.Blocks {
					if _, isRet := rb.Instrs[len(rb.Instrs)-1].(*ssa.Return); !isRet {
						continue
					}
					seen := map[*ssa.BasicBlock]bool{}
					var dfs func(x *ssa.BasicBlock) bool
					dfs = func(x *ssa.BasicBlock) bool {
						if _, isB := gb[x]; isB {
							return false
						}
						if x == rb {
							return true
						}
						if seen[x] {
							return false
						}
						seen[x] = true
						for k, sc := range x.Succs {
							if isBanned(x, k) {
								continue
							}
							if dfs(sc) {
								return true
							}
						}
						return false
					}
					if dfs(g.Blocks[0]) {
						all = false
					}
				}
				if all {
					barrier[call.Block()] = call
				}
			}
		}
	}
	doneChans := map[ssa.Value]bool{}
	for _, gb := range f.Blocks {
		for _, gi := range gb.Instrs {
			g, ok := gi.(*ssa.Go)
			if !ok {
				continue
			}
			mc, ok := g.Call.Value.(*ssa.MakeClosure)
			if !ok {
				continue
			}
			lit, _ := mc.Fn.(*ssa.Function)
			if lit == nil {
				continue
			}
			var waitCall ssa.Instruction
			for i, bnd := range mc.Bindings {
				same := bnd == wg
				if al, isAl := bnd.(*ssa.Alloc); isAl && !same {
					same = ssax.SingleStore(al) == wg
				}
				if same && i < len(lit.FreeVars) {
					for _, r := range *lit.FreeVars[i].Referrers() {
						switch x := r.(type) {
						case *ssa.Call:
							if x.Call.StaticCallee() != nil && x.Call.StaticCallee().Name() == "Wait" {
								waitCall = x
							}
						case *ssa.UnOp:
							// a captured parameter: the pointer is read from the cell first
							for _, rr := range *x.Referrers() {
								if c2, ok := rr.(*ssa.Call); ok && c2.Call.StaticCallee() != nil && c2.Call.StaticCallee().Name() == "Wait" {
									waitCall = c2
								}
							}
						}
					}
				}
			}
			if waitCall == nil {
				continue
			}
			for _, lb := range lit.Blocks {
				for _, li := range lb.Instrs {
					var ch ssa.Value
					switch x := li.(type) {
					case *ssa.Call:
						if bi, ok := x.Call.Value.(*ssa.Builtin); ok && bi.Name() == "close" {
							ch = x.Call.Args[0]
						}
					case *ssa.Send:
						ch = x.Chan
					}
					if ch == nil || !ssax.Precedes(waitCall, li) {
						continue
					}
					if ld, ok := ch.(*ssa.UnOp); ok {
						ch = ld.X
					}
					if fv, ok := ch.(*ssa.FreeVar); ok {
						for i, q := range lit.FreeVars {
							if q == fv && i < len(mc.Bindings) {
								doneChans[mc.Bindings[i]] = true
								// a parameter captured through a cell
								if al, isAl := mc.Bindings[i].(*ssa.Alloc); isAl {
									if sv := ssax.SingleStore(al); sv != nil {
										doneChans[sv] = true
									}
								}
							}
						}
					}
				}
			}
		}
	}
	isDone := func(v ssa.Value) bool {
		if doneChans[v] {
			return true
		}
		if ld, ok := v.(*ssa.UnOp); ok && doneChans[ld.X] {
			return true
		}
		return false
	}
	for _, rb := range f.Blocks {
		for _, ri := range rb.Instrs {
			switch x := ri.(type) {
			case *ssa.UnOp:
				if x.Op == token.ARROW && isDone(x.X) {
					barrier[rb] = x
				}
			case *ssa.Select:
				// only the arm of that channel
				for k, st := range x.States {
					if !isDone(st.Chan) {
						continue
					}
					for _, r := range *x.Referrers() {
						ex, ok := r.(*ssa.Extract)
						if !ok || ex.Index != 0 {
							continue
						}
						for _, rr := range *ex.Referrers() {
							bo, ok := rr.(*ssa.BinOp)
							if !ok || bo.Op != token.EQL {
								continue
							}
							if kc, isC := ssax.ConstInt(bo.Y); isC && int(kc) == k {
								for _, r3 := range *bo.Referrers() {
									if ifi, ok := r3.(*ssa.If); ok {
										banned = append(banned, ssax.Edge{From: ifi.Block(), Succ: 0})
									}
								}
							}
						}
					}
				}
			}
		}
	}
	return barrier, banned
}

// DIRTYGUARD: "if x.countDirty { bucket.Put(key, x.count) }": a persisted field whose write-out is
// skipped unless a flag is set is only correct when every assignment of the field also sets the
// flag. Reported: an assignment of such a field from which the function can return without the
// flag having been set (a decrement on the delete path that forgets the flag leaves the stored
// value stale; the next process start reads it).
func DirtyGuard(w *load.World, c *core.Collector) {
	per := map[string][]lintHit{}
	seen := map[string]bool{}
	type guard struct {
		st         *types.Struct
		flag, data int
		at         string
	}
	var guards []guard
	fieldLoad := func(v ssa.Value) (*types.Struct, int, bool) {
		ld, ok := v.(*ssa.UnOp)
		if !ok || ld.Op != token.MUL {
			return nil, 0, false
		}
		fa, ok := ld.X.(*ssa.FieldAddr)
		if !ok {
			return nil, 0, false
		}
		st := ssax.StructOf(fa.X.Type())
		return st, fa.Field, st != nil
	}
	for _, f := range w.Fns {
		if !load.InMod(f) || f.Synthetic != "" {
			continue
		}
		seen[load.PkgPath(f)] = true
		for _, b := range f.Blocks {
			ifi, ok := b.Instrs[len(b.Instrs)-1].(*ssa.If)
			if !ok {
				continue
			}
			cond, neg := ifi.Cond, false
			if u, ok := cond.(*ssa.UnOp); ok && u.Op == token.NOT {
				cond, neg = u.X, true
			}
			st, flag, ok := fieldLoad(cond)
			if !ok {
				continue
			}
			if bt, isB := st.Field(flag).Type().Underlying().(*types.Basic); !isB || bt.Kind() != types.Bool {
				continue
			}
			edge := 0
			if neg {
				edge = 1
			}
			for _, pb := range f.Blocks {
				if !ssax.OnlyViaEdge(b, edge, pb) {
					continue
				}
				for _, in := range pb.Instrs {
					call, ok := in.(*ssa.Call)
					if !ok || !call.Call.IsInvoke() || call.Call.Method.Name() != "Put" || len(call.Call.Args) < 2 {
						continue
					}
					// which field of the same struct does the stored value come from
					var find func(v ssa.Value, depth int) int
					find = func(v ssa.Value, depth int) int {
						if depth > 5 {
							return -1
						}
						if s2, idx, ok := fieldLoad(v); ok && s2 == st && idx != flag {
							return idx
						}
						if in2, ok := v.(ssa.Instruction); ok {
							for _, op := range in2.Operands(nil) {
								if *op != nil {
									if r := find(*op, depth+1); r >= 0 {
										return r
									}
								}
							}
						}
						return -1
					}
					if data := find(call.Call.Args[1], 0); data >= 0 {
						guards = append(guards, guard{st, flag, data, w.At(call)})
					}
				}
			}
		}
	}
	c.Count("flag_guarded_persisted_fields", len(guards))
	for _, g := range guards {
		for _, f := range w.Fns {
			if !load.InMod(f) || f.Synthetic != "" {
				continue
			}
			pkg := load.PkgPath(f)
			for _, b := range f.Blocks {
				for _, in := range b.Instrs {
					st, ok := in.(*ssa.Store)
					if !ok {
						continue
					}
					fa, ok := st.Addr.(*ssa.FieldAddr)
					if !ok || ssax.StructOf(fa.X.Type()) != g.st || fa.Field != g.data {
						continue
					}
					if _, fresh := ssax.Path(fa.X); fresh {
						continue // the object is being built
					}
					// the flag is set in this function on every way from the assignment to a return
					flagSet := func(x ssa.Instruction) bool {
						s2, ok := x.(*ssa.Store)
						if !ok {
							return false
						}
						fa2, ok := s2.Addr.(*ssa.FieldAddr)
						if !ok || ssax.StructOf(fa2.X.Type()) != g.st || fa2.Field != g.flag {
							return false
						}
						cb, isC := ssax.ConstBool(s2.Val)
						return isC && cb
					}
					covered := false
					for _, x := range b.Instrs {
						if flagSet(x) {
							covered = true
						}
					}
					if !covered {
						seenB := map[*ssa.BasicBlock]bool{}
						var dfs func(x *ssa.BasicBlock) bool
						dfs = func(x *ssa.BasicBlock) bool {
							if seenB[x] {
								return false
							}
							seenB[x] = true
							for _, xi := range x.Instrs {
								if flagSet(xi) {
									return false
								}
								if _, isRet := xi.(*ssa.Return); isRet {
									return true
								}
							}
							for _, sc := range x.Succs {
								if dfs(sc) {
									return true
								}
							}
							return false
						}
						escapes := false
						for _, sc := range b.Succs {
							if dfs(sc) {
								escapes = true
							}
						}
						if _, isRet := b.Instrs[len(b.Instrs)-1].(*ssa.Return); isRet {
							escapes = true
						}
						covered = !escapes
						// ... or it was set before, on every way to the assignment
						if !covered {
							for _, pb := range f.Blocks {
								for _, x := range pb.Instrs {
									if flagSet(x) && pb != b && pb.Dominates(b) {
										covered = true
									}
								}
							}
						}
					}
					if !covered {
						per[pkg] = append(per[pkg], lintHit{w.At(st), fmt.Sprintf("%s.%s is assigned here, but it is only written to the bucket when %s is set (%s), and this path returns without setting it: the stored value goes stale", ssax.TypeName(fa.X.Type()), g.st.Field(g.data).Name(), g.st.Field(g.flag).Name(), g.at)})
					}
				}
			}
		}
	}
	emitLint(c, "DIRTYGUARD", "flag-guarded-write", seen, per, nil)
}

// TXLEAK: a storage transaction opened by hand (bbolt's DB.Begin) is ended on every path — by
// Rollback or Commit, directly or deferred. A read transaction that is left open on an error path
// keeps the database from ever closing (DB.Close waits for it) and pins the pages it read.
func TxLeak(w *load.World, c *core.Collector) {
	per := map[string][]lintHit{}
	seen := map[string]bool{}
	n := 0
	for _, f := range w.Fns {
		if !load.InMod(f) || f.Synthetic != "" {
			continue
		}
		pkg := load.PkgPath(f)
		if strings.HasSuffix(pkg, "/diskstore") || pkg == load.Mod+"/utils" {
			seen[pkg] = true
		}
		for _, b := range f.Blocks {
			for _, in := range b.Instrs {
				call, ok := in.(*ssa.Call)
				if !ok || call.Call.StaticCallee() == nil || call.Call.StaticCallee().String() != "(*go.etcd.io/bbolt.DB).Begin" {
					continue
				}
				n++
				seen[pkg] = true
				var tx ssa.Value
				for _, r := range *call.Referrers() {
					if ex, ok := r.(*ssa.Extract); ok && ex.Index == 0 {
						tx = ex
					}
				}
				if tx == nil {
					per[pkg] = append(per[pkg], lintHit{w.At(call), "the transaction returned by Begin is dropped"})
					continue
				}
				ends := func(x ssa.Instruction) bool {
					ci, ok := x.(ssa.CallInstruction)
					if !ok || ci.Common().StaticCallee() == nil || len(ci.Common().Args) == 0 {
						return false
					}
					nm := ci.Common().StaticCallee().String()
					return (nm == "(*go.etcd.io/bbolt.Tx).Rollback" || nm == "(*go.etcd.io/bbolt.Tx).Commit") && ci.Common().Args[0] == tx
				}
				// handed to someone else (returned, stored, passed on): their business
				escapes := false
				for _, r := range *tx.Referrers() {
					switch x := r.(type) {
					case *ssa.Store:
						// put into a wrapper the function builds itself and only lends to a callback (a bucket
						// manager around the transaction): the function still owns the transaction
						lent := false
						if fa, ok := x.Addr.(*ssa.FieldAddr); ok && x.Val == tx {
							if al, ok := fa.X.(*ssa.Alloc); ok && ssax.InModuleType(al.Type()) {
								lent = true
								for _, ar := range *al.Referrers() {
									switch y := ar.(type) {
									case *ssa.Return:
										lent = false
									case *ssa.Store:
										if y.Val == ssa.Value(al) {
											lent = false
										}
									}
								}
							}
						}
						if !lent {
							escapes = true
						}
					case *ssa.Return, *ssa.MakeInterface, *ssa.MakeClosure, *ssa.Phi:
						escapes = true
					case ssa.CallInstruction:
						if x.Common().StaticCallee() != nil && len(x.Common().Args) > 0 && x.Common().Args[0] == tx && strings.HasPrefix(x.Common().StaticCallee().String(), "(*go.etcd.io/bbolt.Tx).") {
							continue
						}
						escapes = true
					}
				}
				if escapes {
					continue
				}
				// the edge on which Begin succeeded
				var start []*ssa.BasicBlock
				for _, r := range *call.Referrers() {
					ex, ok := r.(*ssa.Extract)
					if !ok || ex.Index != 1 {
						continue
					}
					_, nilEdges := ssax.NilTests(f, ex)
					for _, e := range nilEdges {
						start = append(start, e.From.Succs[e.Succ])
					}
				}
				if len(start) == 0 {
					start = append(start, b.Succs...)
					if len(b.Succs) == 0 {
						start = []*ssa.BasicBlock{b}
					}
				}
				seenB := map[*ssa.BasicBlock]bool{}
				var dfs func(x *ssa.BasicBlock, deferred bool) string
				dfs = func(x *ssa.BasicBlock, deferred bool) string {
					if seenB[x] {
						return ""
					}
					seenB[x] = true
					for _, xi := range x.Instrs {
						if ends(xi) {
							if _, isDefer := xi.(*ssa.Defer); isDefer {
								deferred = true
								continue
							}
							return ""
						}
						if r, isRet := xi.(*ssa.Return); isRet {
							if deferred {
								return ""
							}
							return w.At(r)
						}
					}
					for _, sc := range x.Succs {
						if where := dfs(sc, deferred); where != "" {
							return where
						}
					}
					return ""
				}
				for _, sb := range start {
					if where := dfs(sb, false); where != "" {
						per[pkg] = append(per[pkg], lintHit{w.At(call), "the transaction begun here is still open when the function returns at " + where + ": the database cannot be closed while it is (Close waits for open transactions), the shard that owns it stays locked"})
						break
					}
				}
			}
		}
	}
	c.Count("hand_opened_transactions", n)
	emitLint(c, "TXLEAK", "transaction-left-open", seen, per, func(p string) []string {
		return []string{"C12", "C08", "C09"}
	})
}

// =========================================================================
// Lints added after the fifth blind round.

// scratchTypes: standard and vendored types that keep per-use state and are documented as not
// safe for concurrent use. One instance per use is the only correct sharing discipline unless a
// lock serialises the uses.
var scratchTypes = []string{
	"msgpack/v5.Decoder", "msgpack/v5.Encoder", "bytes.Buffer", "bytes.Reader", "strings.Builder", "strings.Reader",
	"bufio.Reader", "bufio.Writer", "bufio.Scanner", "encoding/json.Decoder", "encoding/json.Encoder",
	"encoding/gob.Decoder", "encoding/gob.Encoder", "math/rand.Rand", "math/rand/v2.Rand",
	"hash.Hash", "hash.Hash32", "hash.Hash64", "xxhash.Digest", "hash/maphash.Hash", "text/tabwriter.Writer",
}

func isScratchType(t types.Type) bool {
	for {
		if p, ok := t.(*types.Pointer); ok {
			t = p.Elem()
			continue
		}
		break
	}
	s := t.String()
	for _, n := range scratchTypes {
		if s == n || strings.HasSuffix(s, "/"+n) {
			return true
		}
	}
	return false
}

// SHAREDSCRATCH: an object that keeps per-use state (a decoder, an encoder, a buffer, a hash, a
// random source) lives in a field of a long-lived server object, or in a package variable, and is
// used by a method that holds no lock of that object. Requests run one goroutine each: two that
// overlap reset and read the same buffers, and one decodes the other's bytes.
func SharedScratch(w *load.World, ls *lockset.Result, c *core.Collector) {
	per := map[string][]lintHit{}
	seen := map[string]bool{}
	for _, f := range w.Fns {
		if !load.InMod(f) || f.Synthetic != "" {
			continue
		}
		pkg := load.PkgPath(f)
		// per-connection codecs are driven by one reader goroutine and a writer under the rpc
		// package's own sending mutex; generators and tools are single-threaded
		if strings.HasSuffix(pkg, "/cluster/mrpc") || strings.Contains(pkg, "/internal/") {
			continue
		}
		seen[pkg] = true
		if f.Name() == "init" || strings.HasPrefix(f.Name(), "init#") {
			continue
		}
		for _, b := range f.Blocks {
			for _, in := range b.Instrs {
				ci, ok := in.(ssa.CallInstruction)
				if !ok {
					continue
				}
				cc := ci.Common()
				var recv ssa.Value
				if cc.IsInvoke() {
					recv = cc.Value
				} else if g := cc.StaticCallee(); g != nil && g.Signature.Recv() != nil && len(cc.Args) > 0 && !ssax.InModule(g) {
					recv = cc.Args[0]
				}
				if recv == nil || !isScratchType(recv.Type()) {
					continue
				}
				// where does the object live
				ld, ok := recv.(*ssa.UnOp)
				var holder string
				var addr ssa.Value
				if ok && ld.Op == token.MUL {
					addr = ld.X
				} else if fa, ok := recv.(*ssa.FieldAddr); ok {
					addr = fa // a value-typed field used through its address
				} else if g, ok := recv.(*ssa.Global); ok {
					addr = g
				}
				switch a := addr.(type) {
				case *ssa.FieldAddr:
					if _, fresh := ssax.Path(a.X); fresh {
						continue
					}
					tn := ssax.TypeName(a.X.Type())
					guarded := false
					for cls := range ls.HeldAt(in) {
						if strings.HasPrefix(cls, tn+".") {
							guarded = true
						}
					}
					if guarded {
						continue
					}
					// a field of an object the function itself received by value is a copy
					holder = "field " + tn + "." + ssax.StructOf(a.X.Type()).Field(a.Field).Name()
				case *ssa.Global:
					if !ssax.InModule(f) || a.Pkg == nil || !strings.HasPrefix(a.Pkg.Pkg.Path(), load.Mod) {
						continue
					}
					if len(ls.HeldAt(in)) > 0 {
						continue
					}
					holder = "package variable " + a.Name()
				default:
					continue
				}
				per[pkg] = append(per[pkg], lintHit{w.At(in), "a " + strings.TrimPrefix(recv.Type().String(), "*") + " kept in " + holder + " is used with no lock held: it keeps per-use state, and two requests that overlap reset and read each other's buffers"})
			}
		}
	}
	emitLint(c, "SHAREDSCRATCH", "unlocked-use", seen, per, func(p string) []string {
		if strings.HasSuffix(p, "/shard") || strings.Contains(p, "/shard/") {
			return []string{"C09"}
		}
		return nil
	})
}

// POOLDIRTY: an object taken from a sync.Pool is filled and given back in the same function, and
// on some path it goes back without having been emptied (an early return past the clear, with the
// Put deferred). The next Get starts from the leftovers: a set of "ids seen in this batch" that
// still holds ids of a rejected batch rejects a later, valid one.
func PoolDirty(w *load.World, c *core.Collector) {
	per := map[string][]lintHit{}
	seen := map[string]bool{}
	for _, f := range w.Fns {
		if !load.InMod(f) || f.Synthetic != "" {
			continue
		}
		pkg := load.PkgPath(f)
		seen[pkg] = true
		// objects obtained from Get
		var objs []ssa.Value
		for _, b := range f.Blocks {
			for _, in := range b.Instrs {
				if ta, ok := in.(*ssa.TypeAssert); ok {
					if call, ok := ta.X.(*ssa.Call); ok && staticName(call) == "(*sync.Pool).Get" {
						objs = append(objs, ta)
					}
				}
			}
		}
		for _, obj := range objs {
			is := func(v ssa.Value) bool {
				for i := 0; i < 4 && v != nil; i++ {
					if v == obj {
						return true
					}
					switch x := v.(type) {
					case *ssa.MakeInterface:
						v = x.X
					case *ssa.ChangeType:
						v = x.X
					case *ssa.Extract:
						v = x.Tuple
					default:
						return false
					}
				}
				return false
			}
			var muts, resets, sinks []ssa.Instruction
			deferred := false
			for _, b := range f.Blocks {
				for _, in := range b.Instrs {
					switch x := in.(type) {
					case *ssa.MapUpdate:
						if is(x.Map) {
							muts = append(muts, in)
						}
					case *ssa.Store:
						if ia, ok := x.Addr.(*ssa.IndexAddr); ok && is(ia.X) {
							muts = append(muts, in)
						}
						if fa, ok := x.Addr.(*ssa.FieldAddr); ok && is(fa.X) {
							muts = append(muts, in)
						}
					case ssa.CallInstruction:
						cc := x.Common()
						if bi, ok := cc.Value.(*ssa.Builtin); ok {
							if bi.Name() == "clear" && len(cc.Args) == 1 && is(cc.Args[0]) {
								resets = append(resets, in)
							}
							continue
						}
						name := staticName(x)
						if name == "(*sync.Pool).Put" && len(cc.Args) == 2 && is(cc.Args[1]) {
							if _, isDefer := in.(*ssa.Defer); isDefer {
								deferred = true
							} else {
								sinks = append(sinks, in)
							}
							continue
						}
						if g := cc.StaticCallee(); g != nil && g.Signature.Recv() != nil && len(cc.Args) > 0 && is(cc.Args[0]) {
							switch {
							case strings.HasPrefix(g.Name(), "Reset"), strings.HasPrefix(g.Name(), "Clear"), g.Name() == "Truncate":
								resets = append(resets, in)
							default:
								for _, m := range mutatorNames {
									if strings.HasPrefix(g.Name(), m) {
										muts = append(muts, in)
										break
									}
								}
							}
						}
					}
				}
			}
			if deferred {
				for _, b := range f.Blocks {
					if r, ok := b.Instrs[len(b.Instrs)-1].(*ssa.Return); ok {
						sinks = append(sinks, r)
					}
				}
			}
			if len(sinks) == 0 || len(muts) == 0 {
				continue
			}
			// emptied on the way out of Get, before any use: leftovers do not matter
			objIn := obj.(ssa.Instruction)
			emptiedAtGet := false
			for _, r := range resets {
				if r.Block() == objIn.Block() || r.Block().Dominates(muts[0].Block()) {
					first := true
					for _, m := range muts {
						if !instrBefore(r, m) && !properlyDominates(r, m) {
							first = false
						}
					}
					if first {
						emptiedAtGet = true
					}
				}
			}
			if emptiedAtGet {
				continue
			}
			blocked := map[ssa.Instruction]bool{}
			for _, r := range resets {
				blocked[r] = true
			}
			target := map[ssa.Instruction]bool{}
			for _, s := range sinks {
				target[s] = true
			}
			for _, m := range muts {
				if hit := reachesInstrWithout(m, target, blocked); hit != nil {
					per[pkg] = append(per[pkg], lintHit{w.At(m), "the pooled object is filled here and can go back to the pool at " + w.At(hit) + " without having been emptied: the next Get starts from what this call left in it"})
					break
				}
			}
		}
	}
	emitLint(c, "POOLDIRTY", "returned-dirty", seen, per, nil)
}

func instrIndex(in ssa.Instruction) int {
	for i, x := range in.Block().Instrs {
		if x == in {
			return i
		}
	}
	return -1
}

// instrBefore: same block, a before b
func instrBefore(a, b ssa.Instruction) bool {
	return a.Block() == b.Block() && instrIndex(a) < instrIndex(b)
}

func properlyDominates(a, b ssa.Instruction) bool {
	return a.Block() != b.Block() && a.Block().Dominates(b.Block())
}

// reachesInstrWithout: the first target instruction reachable from just after `from` on a path
// that executes none of the blocked instructions
func reachesInstrWithout(from ssa.Instruction, target, blocked map[ssa.Instruction]bool) ssa.Instruction {
	scan := func(b *ssa.BasicBlock, start int) (hit ssa.Instruction, stop bool) {
		for _, in := range b.Instrs[start:] {
			if blocked[in] {
				return nil, true
			}
			if target[in] {
				return in, true
			}
		}
		return nil, false
	}
	if hit, stop := scan(from.Block(), instrIndex(from)+1); stop {
		return hit
	}
	seenB := map[*ssa.BasicBlock]bool{}
	work := append([]*ssa.BasicBlock{}, from.Block().Succs...)
	for len(work) > 0 {
		b := work[0]
		work = work[1:]
		if seenB[b] {
			continue
		}
		seenB[b] = true
		hit, stop := scan(b, 0)
		if hit != nil {
			return hit
		}
		if !stop {
			work = append(work, b.Succs...)
		}
	}
	return nil
}

var fullFileName = regexp.MustCompile(`^[A-Za-z0-9_-]+\.[A-Za-z0-9]{2,8}$`)

// LOOSENAME: a file is recognised as "the" file of a given name by a substring, prefix or suffix
// test against the complete file name. "sharddb.bbolt.bak" and "old-sharddb.bbolt" are then shard
// databases too, and whatever is done to shard databases (send, then delete) is done to them.
func LooseName(w *load.World, c *core.Collector) {
	per := map[string][]lintHit{}
	seen := map[string]bool{}
	for _, f := range w.Fns {
		if !load.InMod(f) || f.Synthetic != "" {
			continue
		}
		pkg := load.PkgPath(f)
		seen[pkg] = true
		for _, b := range f.Blocks {
			for _, in := range b.Instrs {
				call, ok := in.(*ssa.Call)
				if !ok || len(call.Call.Args) != 2 {
					continue
				}
				n := staticName(call)
				if n != "strings.Contains" && n != "strings.HasSuffix" && n != "strings.HasPrefix" {
					continue
				}
				k, ok := call.Call.Args[1].(*ssa.Const)
				if !ok || k.Value == nil || k.Value.Kind() != constant.String || !fullFileName.MatchString(constant.StringVal(k.Value)) {
					continue
				}
				if n != "strings.Contains" {
					// a suffix test on a whole path is the usual way to ask for the last element; on a
					// base name it is a loose match
					src, ok := call.Call.Args[0].(*ssa.Call)
					if !ok {
						continue
					}
					sn := staticName(src)
					isName := sn == "path/filepath.Base" || sn == "path.Base" || (src.Call.IsInvoke() && src.Call.Method.Name() == "Name")
					if !isName {
						continue
					}
				}
				per[pkg] = append(per[pkg], lintHit{w.At(in), fmt.Sprintf("a file counts as %q when its name merely contains, starts or ends with that: %q and %q count too", constant.StringVal(k.Value), constant.StringVal(k.Value)+".bak", "old-"+constant.StringVal(k.Value))})
			}
		}
	}
	emitLint(c, "LOOSENAME", "file-name-match", seen, per, func(p string) []string {
		if strings.HasSuffix(p, "/cluster") {
			return []string{"C14"}
		}
		return nil
	})
}

// REPEATCMP: a function compares the same two things twice (the same pure comparison applied to
// structurally identical operands). The second comparison cannot tell more than the first: in a
// multi-word comparator it is the word that was meant to be the next one (a[:8] against b[:8],
// then a[:8] against b[:8] again instead of a[8:] against b[8:]), and ids that differ only there
// compare equal.
func RepeatCmp(w *load.World, c *core.Collector) {
	per := map[string][]lintHit{}
	seen := map[string]bool{}
	pure := map[string]bool{"bytes.Compare": true, "bytes.Equal": true, "strings.Compare": true, "cmp.Compare": true, "cmp.Less": true, "slices.Compare": true, "slices.Equal": true}
	var canon func(v ssa.Value, d int) string
	canon = func(v ssa.Value, d int) string {
		if d > 8 || v == nil {
			return "?"
		}
		switch x := v.(type) {
		case *ssa.Const:
			return "k(" + x.String() + ")"
		case *ssa.Parameter:
			return "p(" + x.Name() + ")"
		case *ssa.FreeVar:
			return "fv(" + x.Name() + ")"
		case *ssa.Global:
			return "g(" + x.String() + ")"
		case *ssa.Alloc:
			// the cell a parameter was spilled into stands for the parameter
			if sv := ssax.SingleStore(x); sv != nil {
				if p, ok := sv.(*ssa.Parameter); ok {
					return "cell(" + p.Name() + ")"
				}
			}
			return "?"
		case *ssa.Slice:
			lo, hi := "", ""
			if x.Low != nil {
				lo = canon(x.Low, d+1)
			}
			if x.High != nil {
				hi = canon(x.High, d+1)
			}
			return "slice(" + canon(x.X, d+1) + "," + lo + "," + hi + ")"
		case *ssa.UnOp:
			return "u" + x.Op.String() + "(" + canon(x.X, d+1) + ")"
		case *ssa.FieldAddr:
			return fmt.Sprintf("fa%d(%s)", x.Field, canon(x.X, d+1))
		case *ssa.Field:
			return fmt.Sprintf("f%d(%s)", x.Field, canon(x.X, d+1))
		case *ssa.IndexAddr:
			return "ia(" + canon(x.X, d+1) + "," + canon(x.Index, d+1) + ")"
		case *ssa.Convert:
			return "cv(" + canon(x.X, d+1) + ")"
		case *ssa.ChangeType:
			return canon(x.X, d+1)
		case *ssa.Call:
			g := x.Call.StaticCallee()
			if g == nil {
				return "?"
			}
			s := "call(" + g.String()
			for _, a := range x.Call.Args {
				s += "," + canon(a, d+1)
			}
			return s + ")"
		}
		return "?"
	}
	for _, f := range w.Fns {
		if !load.InMod(f) || f.Synthetic != "" {
			continue
		}
		pkg := load.PkgPath(f)
		seen[pkg] = true
		first := map[string]ssa.Instruction{}
		for _, b := range f.Blocks {
			for _, in := range b.Instrs {
				call, ok := in.(*ssa.Call)
				if !ok || call.Call.StaticCallee() == nil {
					continue
				}
				name := call.Call.StaticCallee().String()
				if i := strings.Index(name, "["); i > 0 {
					name = name[:i]
				}
				if !pure[name] || len(call.Call.Args) != 2 {
					continue
				}
				k := canon(call, 0)
				if strings.Contains(k, "?") || canon(call.Call.Args[0], 0) == canon(call.Call.Args[1], 0) {
					continue
				}
				if prev, dup := first[k]; dup {
					per[pkg] = append(per[pkg], lintHit{w.At(in), "the same two operands are compared a second time (first at " + w.At(prev) + "): the part that was meant to be compared here is never looked at, and values that differ only in it count as equal"})
				} else {
					first[k] = in
				}
			}
		}
	}
	emitLint(c, "REPEATCMP", "same-operands-twice", seen, per, nil)
}

// IFACEEQ: two values of type any are compared with == (or !=) and neither is known to hold a
// comparable type. The comparison panics at run time when both hold the same uncomparable dynamic
// type: decoded documents hold []any and map[string]any, and a panic in a worker goroutine is
// outside the recovery middleware.
func IfaceEq(w *load.World, c *core.Collector) {
	per := map[string][]lintHit{}
	seen := map[string]bool{}
	isAny := func(t types.Type) bool {
		it, ok := t.Underlying().(*types.Interface)
		return ok && it.NumMethods() == 0
	}
	knownComparable := func(v ssa.Value) bool {
		switch x := v.(type) {
		case *ssa.MakeInterface:
			return types.Comparable(x.X.Type())
		case *ssa.Const:
			return true
		}
		return false
	}
	for _, f := range w.Fns {
		if !load.InMod(f) || f.Synthetic != "" {
			continue
		}
		pkg := load.PkgPath(f)
		seen[pkg] = true
		for _, b := range f.Blocks {
			for _, in := range b.Instrs {
				bo, ok := in.(*ssa.BinOp)
				if !ok || (bo.Op != token.EQL && bo.Op != token.NEQ) {
					continue
				}
				if !isAny(bo.X.Type()) || !isAny(bo.Y.Type()) || knownComparable(bo.X) || knownComparable(bo.Y) {
					continue
				}
				per[pkg] = append(per[pkg], lintHit{w.At(in), "two values of type any are compared with " + bo.Op.String() + ": when both hold a slice or a map (a decoded array or object) the comparison panics, in a goroutine the recovery middleware does not cover"})
			}
		}
	}
	emitLint(c, "IFACEEQ", "uncomparable-dynamic-type", seen, per, func(p string) []string {
		if strings.HasSuffix(p, "/utils") {
			return []string{"C18", "C06"}
		}
		return []string{"C18"}
	})
}

// CUTONCE: a dotted path ("a.b.c") is taken apart with one strings.Cut (or SplitN(…, 2)) outside
// any loop and the remainder is used as a map key as it is. Two segments resolve; with three the
// key looked up is "b.c", which no map holds: the property counts as absent and whatever is
// checked for present properties (type, vector length) is skipped.
func CutOnce(w *load.World, c *core.Collector) {
	per := map[string][]lintHit{}
	seen := map[string]bool{}
	for _, f := range w.Fns {
		if !load.InMod(f) || f.Synthetic != "" {
			continue
		}
		pkg := load.PkgPath(f)
		seen[pkg] = true
		for _, b := range f.Blocks {
			for _, in := range b.Instrs {
				call, ok := in.(*ssa.Call)
				if !ok || staticName(call) != "strings.Cut" || len(call.Call.Args) != 2 {
					continue
				}
				// a loop that cuts its own remainder again walks the whole path; a loop over other
				// things (one cut per path of a list) does not
				if inLoop(b) {
					iterative := false
					seenP := map[ssa.Value]bool{}
					var fromOwn func(v ssa.Value, d int)
					fromOwn = func(v ssa.Value, d int) {
						if d > 5 || v == nil || seenP[v] {
							return
						}
						seenP[v] = true
						switch x := v.(type) {
						case *ssa.Phi:
							for _, e := range x.Edges {
								fromOwn(e, d+1)
							}
						case *ssa.Extract:
							if x.Tuple == ssa.Value(call) && x.Index == 1 {
								iterative = true
							}
						case *ssa.UnOp:
							if al, ok := x.X.(*ssa.Alloc); ok {
								for _, r := range *al.Referrers() {
									if st, ok := r.(*ssa.Store); ok && st.Addr == ssa.Value(al) {
										fromOwn(st.Val, d+1)
									}
								}
							}
						}
					}
					fromOwn(call.Call.Args[0], 0)
					if iterative {
						continue
					}
				}
				if sep, ok := ssax.ConstString(call.Call.Args[1]); !ok || sep != "." {
					continue
				}
				// the part after the separator, used as a map key
				var after ssa.Value
				for _, r := range *call.Referrers() {
					if ex, ok := r.(*ssa.Extract); ok && ex.Index == 1 {
						after = ex
					}
				}
				if after == nil {
					continue
				}
				usedAsKey := false
				seenV := map[ssa.Value]bool{}
				var walk func(v ssa.Value, d int)
				walk = func(v ssa.Value, d int) {
					if d > 5 || seenV[v] || v.Referrers() == nil {
						return
					}
					seenV[v] = true
					for _, r := range *v.Referrers() {
						switch x := r.(type) {
						case *ssa.Lookup:
							if x.Index == v {
								usedAsKey = true
							}
						case *ssa.MapUpdate:
							if x.Key == v {
								usedAsKey = true
							}
						case *ssa.Phi:
							walk(x, d+1)
						case *ssa.Store:
							if al, ok := x.Addr.(*ssa.Alloc); ok && x.Val == v {
								for _, rr := range *al.Referrers() {
									if ld, ok := rr.(*ssa.UnOp); ok && ld.Op == token.MUL {
										walk(ld, d+1)
									}
								}
							}
						case *ssa.Return:
							// handed back to a caller that uses it as the key
							for i, res := range x.Results {
								if res != v {
									continue
								}
								for _, site := range staticCallSites(w, f) {
									if sv := site.Value(); sv != nil {
										for _, sr := range *sv.Referrers() {
											if ex, ok := sr.(*ssa.Extract); ok && ex.Index == i {
												walk(ex, d+1)
											}
										}
									}
								}
							}
						}
					}
				}
				walk(after, 0)
				if usedAsKey {
					per[pkg] = append(per[pkg], lintHit{w.At(in), "a dotted path is cut once and the remainder is used as a map key: \"a.b.c\" looks up the key \"b.c\" in the map under \"a\", finds nothing, and the property is treated as absent"})
				}
			}
		}
	}
	emitLint(c, "CUTONCE", "path-cut-once", seen, per, nil)
}
