package rules

import (
	"fmt"
	"go/token"
	"go/types"
	"sort"
	"strings"

	"golang.org/x/tools/go/ssa"

	"semaverif/internal/core"
	"semaverif/internal/load"
	"semaverif/internal/ssax"
)

// ---------------------------------------------------------------- DEADSTORE
//
// A value assigned to a field of a function-local struct variable that nothing
// reads afterwards is a lost update: typically the variable was already copied
// (into an interface, a context, a request) and the assignment was meant for
// the copy. The rule reports a store into a field of a local, non-escaping
// struct variable from which no read of that variable is reachable. It decides
// a necessary condition of several properties at once (a limit bound to the
// request after the request was copied is never enforced: C18; a destination
// set on a template after the template was copied: C13/C17), so obligations
// are grouped per package and tagged with the properties that package serves.

func lintProps(pkg string) []string {
	switch {
	case strings.Contains(pkg, "/httpapi"), strings.HasSuffix(pkg, "/models"):
		return []string{"C18"}
	case strings.HasSuffix(pkg, "/cluster"):
		return []string{"C17", "C13"}
	case strings.Contains(pkg, "/shard/cache"):
		return []string{"C11"}
	case strings.Contains(pkg, "/shard/index"):
		return []string{"C02"}
	case strings.HasSuffix(pkg, "/shard/vectorstore"):
		return []string{"C04"}
	case strings.HasSuffix(pkg, "/shard"), strings.HasSuffix(pkg, "/shard/pointstore"):
		return []string{"C01"}
	default:
		// packages that serve none of the properties (configuration, generators, tools)
		return nil
	}
}

// escapesAlloc: the address of the local variable itself is handed to something
// that may read it later in ways the function's own instructions do not show.
func escapesAlloc(al *ssa.Alloc) bool {
	for _, r := range *al.Referrers() {
		switch x := r.(type) {
		case *ssa.FieldAddr, *ssa.IndexAddr, *ssa.DebugRef:
		case *ssa.UnOp:
			// a load of the whole value: a read, not an escape
		case *ssa.Store:
			if x.Val == ssa.Value(al) {
				return true
			}
		default:
			return true
		}
	}
	// addresses of fields that escape
	for _, r := range *al.Referrers() {
		fa, ok := r.(*ssa.FieldAddr)
		if !ok {
			continue
		}
		for _, rr := range *fa.Referrers() {
			switch y := rr.(type) {
			case *ssa.Store:
				if y.Val == ssa.Value(fa) {
					return true
				}
			case *ssa.UnOp, *ssa.FieldAddr, *ssa.IndexAddr, *ssa.DebugRef:
			default:
				return true
			}
		}
	}
	return false
}

func DeadStore(w *load.World, c *core.Collector) {
	type hit struct{ where, what string }
	per := map[string][]hit{}
	seenPkg := map[string]bool{}
	n := 0
	for _, f := range w.Fns {
		if !load.InMod(f) || f.Synthetic != "" {
			continue
		}
		pkg := load.PkgPath(f)
		seenPkg[pkg] = true
		for _, b := range f.Blocks {
			for idx, in := range b.Instrs {
				st, ok := in.(*ssa.Store)
				if !ok {
					continue
				}
				fa, ok := st.Addr.(*ssa.FieldAddr)
				if !ok {
					continue
				}
				al, ok := fa.X.(*ssa.Alloc)
				if !ok || al.Heap && escapesAlloc(al) || escapesAlloc(al) {
					continue
				}
				if _, isStruct := al.Type().Underlying().(*types.Pointer).Elem().Underlying().(*types.Struct); !isStruct {
					continue
				}
				// composite literals initialise temporaries field by field: those are read by the
				// load that follows; only named variables are of interest
				if al.Comment == "complit" || al.Comment == "" {
					continue
				}
				n++
				// is a read of the variable reachable after the store?
				reads := map[ssa.Instruction]bool{}
				for _, r := range *al.Referrers() {
					switch x := r.(type) {
					case *ssa.UnOp:
						reads[x] = true
					case *ssa.FieldAddr:
						for _, rr := range *x.Referrers() {
							if _, isStore := rr.(*ssa.Store); !isStore {
								reads[rr] = true
							}
						}
					case *ssa.IndexAddr:
						for _, rr := range *x.Referrers() {
							if _, isStore := rr.(*ssa.Store); !isStore {
								reads[rr] = true
							}
						}
					}
				}
				live := false
				for _, later := range b.Instrs[idx+1:] {
					if reads[later] {
						live = true
					}
				}
				if !live {
					seen := map[*ssa.BasicBlock]bool{}
					var dfs func(bb *ssa.BasicBlock)
					dfs = func(bb *ssa.BasicBlock) {
						if seen[bb] || live {
							return
						}
						seen[bb] = true
						for _, x := range bb.Instrs {
							if reads[x] {
								live = true
								return
							}
						}
						for _, s := range bb.Succs {
							dfs(s)
						}
					}
					for _, s := range b.Succs {
						dfs(s)
					}
				}
				// a named result is read by the return
				if !live && f.Signature.Results() != nil {
					for i := 0; i < f.Signature.Results().Len(); i++ {
						if f.Signature.Results().At(i).Name() == al.Comment && al.Comment != "" {
							live = true
						}
					}
				}
				if !live {
					st2 := ssax.StructOf(fa.X.Type())
					per[pkg] = append(per[pkg], hit{w.At(in), fmt.Sprintf("%s.%s is assigned in %s but the variable is never read afterwards (it was copied before?): the assignment is lost", al.Comment, st2.Field(fa.Field).Name(), load.FnKey(f))})
				}
			}
		}
	}
	c.Count("field_stores_to_local_structs", n)
	var pkgs []string
	for p := range seenPkg {
		pkgs = append(pkgs, p)
	}
	sort.Strings(pkgs)
	for _, p := range pkgs {
		if lintProps(p) == nil {
			continue
		}
		key := "lost-update:" + load.Short(p)
		hs := per[p]
		if len(hs) == 0 {
			c.Add("DEADSTORE", key, core.OK, "", "", lintProps(p)...)
			continue
		}
		sort.Slice(hs, func(i, j int) bool { return hs[i].where < hs[j].where })
		var parts []string
		for _, h := range hs {
			parts = append(parts, h.where+": "+h.what)
		}
		c.Add("DEADSTORE", key, core.Violation, hs[0].where, strings.Join(parts, "; "), lintProps(p)...)
	}
}

// ---------------------------------------------------------------- GOCAPTURE
//
// A goroutine started in a loop that reads a variable the loop itself keeps
// assigning (a variable declared outside the loop and captured by reference)
// sees whatever value the loop has reached when the goroutine gets to run:
// requests are sent to the destination of another shard, results are stored
// under another index. Per-iteration variables (declared in the loop body, or
// the loop variables themselves since Go 1.22) are fresh cells and are fine.

func GoCapture(w *load.World, c *core.Collector) {
	type hit struct{ where, what string }
	per := map[string][]hit{}
	seenPkg := map[string]bool{}
	n := 0
	inCycle := func(a, b *ssa.BasicBlock) bool { return ssax.Reaches(a, b) && ssax.Reaches(b, a) }
	for _, f := range w.Fns {
		if !load.InMod(f) {
			continue
		}
		pkg := load.PkgPath(f)
		for _, b := range f.Blocks {
			for _, in := range b.Instrs {
				g, ok := in.(*ssa.Go)
				if !ok {
					continue
				}
				mc, ok := g.Call.Value.(*ssa.MakeClosure)
				if !ok {
					continue
				}
				lit, _ := mc.Fn.(*ssa.Function)
				if lit == nil || !inLoop(b) {
					continue
				}
				seenPkg[pkg] = true
				n++
				for i, bnd := range mc.Bindings {
					cell, ok := bnd.(*ssa.Alloc)
					if !ok || i >= len(lit.FreeVars) {
						continue
					}
					// declared outside the loop: the allocation is not part of the cycle of the go statement
					if inCycle(cell.Block(), b) {
						continue
					}
					// does the literal read it?
					readsIt := false
					for _, r := range *lit.FreeVars[i].Referrers() {
						switch x := r.(type) {
						case *ssa.UnOp:
							readsIt = true
						case *ssa.FieldAddr:
							for _, rr := range *x.Referrers() {
								if _, isStore := rr.(*ssa.Store); !isStore {
									readsIt = true
								}
							}
						}
					}
					if !readsIt {
						continue
					}
					// does the loop (outside the literal) assign it?
					for _, stBlk := range storeBlocksInto(cell, 0) {
						if stBlk == nil || !inCycle(stBlk, b) {
							continue
						}
						// a mutex-protected accumulator is written by the goroutines themselves, not by the loop
						per[pkg] = append(per[pkg], hit{w.At(in), fmt.Sprintf("the goroutine started here reads %s, which is declared outside the loop and assigned again by every iteration (%s): it may see the value of a later iteration", cell.Comment, w.Position(stBlk.Instrs[0].Pos()))})
						break
					}
				}
			}
		}
	}
	c.Count("goroutines_started_in_loops", n)
	var pkgs []string
	for p := range seenPkg {
		pkgs = append(pkgs, p)
	}
	sort.Strings(pkgs)
	for _, p := range pkgs {
		key := "loop-shared:" + load.Short(p)
		props := []string{"C09"}
		if strings.HasSuffix(p, "/cluster") {
			props = []string{"C17", "C13"}
		}
		hs := per[p]
		if len(hs) == 0 {
			c.Add("GOCAPTURE", key, core.OK, "", "", props...)
			continue
		}
		sort.Slice(hs, func(i, j int) bool { return hs[i].where < hs[j].where })
		var parts []string
		for _, h := range hs {
			parts = append(parts, h.where+": "+h.what)
		}
		c.Add("GOCAPTURE", key, core.Violation, hs[0].where, strings.Join(dedupe(parts), "; "), props...)
	}
}

var _ = token.ADD

// storeBlocksInto: the blocks of the stores into a variable or into any field or element of it.
func storeBlocksInto(addr ssa.Value, depth int) []*ssa.BasicBlock {
	if depth > 4 || addr.Referrers() == nil {
		return nil
	}
	var out []*ssa.BasicBlock
	for _, r := range *addr.Referrers() {
		switch x := r.(type) {
		case *ssa.Store:
			if x.Addr == addr {
				out = append(out, x.Block())
			}
		case *ssa.FieldAddr:
			out = append(out, storeBlocksInto(x, depth+1)...)
		case *ssa.IndexAddr:
			out = append(out, storeBlocksInto(x, depth+1)...)
		}
	}
	return out
}
