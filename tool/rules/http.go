package rules

import (
	"fmt"
	"go/token"
	"go/types"
	"sort"
	"strings"

	"golang.org/x/tools/go/ssa"

	"semaverif/internal/core"
	"semaverif/internal/load"
	"semaverif/internal/ssax"
)

func httpHandlers(w *load.World) []*ssa.Function {
	var out []*ssa.Function
	for _, f := range w.Fns {
		p := load.PkgPath(f)
		if p != load.Mod+"/httpapi/v1" && p != load.Mod+"/httpapi/v2" {
			continue
		}
		if f.Parent() == nil && f.Signature.Recv() != nil && strings.HasPrefix(f.Name(), "Handle") && f.Synthetic == "" {
			out = append(out, f)
		}
	}
	return out
}

type guard struct {
	name     string
	failEdge ssax.Edge
	at       string
}

// guardsIn collects the validation guards of a handler with the edge taken when validation fails.
func guardsIn(w *load.World, f *ssa.Function) []guard { return guardsInN(w, f, 0) }

func guardsInN(w *load.World, f *ssa.Function, depth int) []guard {
	var gs []guard
	errGuard := func(name string, call *ssa.Call, errIdx int) {
		ev := resultValue(call, errIdx)
		if ev == nil {
			return
		}
		nn, _ := ssax.NilTests(f, ev)
		for _, e := range nn {
			gs = append(gs, guard{name, e, w.At(call)})
		}
	}
	for _, b := range f.Blocks {
		for _, in := range b.Instrs {
			if call, ok := in.(*ssa.Call); ok {
				g := call.Call.StaticCallee()
				if g == nil {
					continue
				}
				k := load.FnKey(g)
				res := call.Call.Signature().Results()
				switch {
				case strings.HasPrefix(k, "httpapi/utils.DecodeValid"):
					errGuard("DecodeValid", call, res.Len()-1)
				case k == "(models.IndexSchema).CheckCompatibleMap":
					errGuard("CheckCompatibleMap", call, 0)
				case k == "(models.PointAsMap).ExtractIdField":
					errGuard("ExtractIdField", call, 1)
				case k == "(models.Query).ValidateSchema":
					errGuard("ValidateSchema", call, 0)
				case strings.HasSuffix(k, "msgpack/v5.Marshal"):
					errGuard("Marshal", call, 1)
				default:
					// a helper of the handler that performs checks and reports their failure as an error
					if depth == 0 && ssax.InModule(g) && strings.Contains(load.PkgPath(g), "/httpapi") && res.Len() > 0 && isErrorType(res.At(res.Len()-1).Type()) {
						for _, ig := range guardsInN(w, g, 1) {
							if failEdgeReturnsError(g, ig.failEdge) {
								errGuard(ig.name, call, res.Len()-1)
							}
						}
					}
				}
			}
		}
		if ifi, ok := b.Instrs[len(b.Instrs)-1].(*ssa.If); ok {
			if bo, ok := ifi.Cond.(*ssa.BinOp); ok {
				ox, oy := ssax.Prov(bo.X), ssax.Prov(bo.Y)
				if deepHas(w, bo.X, "field:MaxPointSize") {
					ox["field:MaxPointSize"] = true
				}
				if deepHas(w, bo.Y, "field:MaxPointSize") {
					oy["field:MaxPointSize"] = true
				}
				switch {
				case (ox["field:MaxPointSize"] || oy["field:MaxPointSize"]) && (bo.Op == token.GTR || bo.Op == token.GEQ):
					gs = append(gs, guard{"MaxPointSize", ssax.Edge{From: b, Succ: 0}, w.At(ifi)})
				case (ox["field:VectorSize"] || oy["field:VectorSize"]) && bo.Op == token.NEQ:
					gs = append(gs, guard{"VectorSize", ssax.Edge{From: b, Succ: 0}, w.At(ifi)})
				}
			}
		}
	}
	return gs
}

func Valid(w *load.World, c *core.Collector) {
	props := []string{"C18"}
	queryBlocksValidated(w, c)
	filtersValidated(w, c)
	// V1: the request body is read in one place only
	nBody := 0
	for _, f := range w.Fns {
		for _, b := range f.Blocks {
			for _, in := range b.Instrs {
				fa, ok := in.(*ssa.FieldAddr)
				if !ok || fieldOf(fa) != "http.Request.Body" {
					continue
				}
				nBody++
				key := "body-access:" + load.FnKey(f)
				if strings.HasPrefix(load.FnKey(f), "httpapi/utils.DecodeValid") || onlyServesDecodeValid(w, f, 0) {
					c.Add("VALID", key, core.OK, w.At(in), "", props...)
				} else {
					c.Add("VALID", key, core.Violation, w.At(in), "the request body is read outside DecodeValid: the decoded value would bypass Validate()", props...)
				}
			}
		}
	}
	if nBody == 0 {
		c.Add("VALID", "anchor:body", core.Undecided, "", "no access to http.Request.Body found", props...)
	}
	// V2: DecodeValid returns success only after Validate succeeded
	for _, f := range w.Fns {
		if !strings.HasPrefix(load.FnKey(f), "httpapi/utils.DecodeValid") || f.Parent() != nil {
			continue
		}
		var vcall *ssa.Call
		for _, b := range f.Blocks {
			for _, in := range b.Instrs {
				if call, ok := in.(*ssa.Call); ok {
					if (call.Call.IsInvoke() && call.Call.Method.Name() == "Validate") || (call.Call.StaticCallee() != nil && call.Call.StaticCallee().Name() == "Validate") {
						vcall = call
					}
				}
			}
		}
		key := "decode-validates:" + load.FnKey(f)
		if vcall == nil {
			c.Add("VALID", key, core.Violation, w.Position(f.Pos()), "DecodeValid does not call Validate()", props...)
			continue
		}
		_, okEdges := ssax.NilTests(f, vcall)
		bad := ""
		for _, b := range f.Blocks {
			for _, in := range b.Instrs {
				r, ok := in.(*ssa.Return)
				if !ok {
					continue
				}
				ev := ssax.ReturnOperand(r, len(r.Results)-1)
				if ssax.IsNilConst(ev) && !onlyViaAny(okEdges, b) {
					bad = w.At(in)
				}
			}
		}
		if bad != "" {
			c.Add("VALID", key, core.Violation, bad, "DecodeValid can report success without Validate() having succeeded", props...)
		} else {
			c.Add("VALID", key, core.OK, w.At(vcall), "", props...)
		}
	}
	// V3..V5: in every handler, no failing validation edge can reach a cluster call that carries request data
	hs := httpHandlers(w)
	c.Count("http_handlers", len(hs))
	if len(hs) < 16 {
		c.Add("VALID", "anchor:handlers", core.Undecided, "", fmt.Sprintf("found %d HTTP handlers, expected at least 16", len(hs)), props...)
	}
	required := map[string][]string{
		"HandleInsertPoints":     {"DecodeValid"},
		"HandleUpdatePoints":     {"DecodeValid"},
		"HandleDeletePoints":     {"DecodeValid"},
		"HandleSearchPoints":     {"DecodeValid"},
		"HandleCreateCollection": {"DecodeValid"},
	}
	for _, f := range hs {
		v2 := strings.Contains(load.PkgPath(f), "/v2")
		need := append([]string(nil), required[f.Name()]...)
		switch f.Name() {
		case "HandleInsertPoints", "HandleUpdatePoints":
			if v2 {
				need = append(need, "CheckCompatibleMap", "ExtractIdField", "MaxPointSize")
			} else {
				need = append(need, "VectorSize", "MaxPointSize")
			}
		case "HandleSearchPoints":
			if v2 {
				need = append(need, "ValidateSchema")
			} else {
				need = append(need, "VectorSize")
			}
		}
		if len(need) == 0 {
			continue
		}
		gs := guardsIn(w, f)
		var calls []*ssa.Call
		for _, b := range f.Blocks {
			for _, in := range b.Instrs {
				if call, ok := in.(*ssa.Call); ok {
					if g := call.Call.StaticCallee(); g != nil && strings.HasPrefix(load.FnKey(g), "(*cluster.ClusterNode).") {
						calls = append(calls, call)
					}
				}
			}
		}
		key := "guards:" + load.FnKey(f)
		if len(calls) == 0 {
			c.Add("VALID", key, core.Undecided, w.Position(f.Pos()), "handler makes no cluster call", props...)
			continue
		}
		var probs []string
		for _, n := range need {
			found := false
			for _, g := range gs {
				if g.name != n {
					continue
				}
				found = true
				for _, call := range calls {
					if ssax.Reaches(g.failEdge.From.Succs[g.failEdge.Succ], call.Block()) {
						probs = append(probs, fmt.Sprintf("the failing edge of %s (%s) can still reach %s", n, g.at, calleeKey(call.Common())))
					}
				}
			}
			if !found {
				probs = append(probs, "no "+n+" check before the cluster call")
			}
		}
		if len(probs) > 0 {
			sort.Strings(probs)
			c.Add("VALID", key, core.Violation, w.At(calls[0]), strings.Join(probs, "; "), props...)
		} else {
			c.Add("VALID", key, core.OK, w.At(calls[0]), strings.Join(need, ","), props...)
		}
	}
}

// ------------------------------------------------------------------- TENANT

// concatOperands flattens a string concatenation, looking through []byte/string
// conversions and through module helpers that do nothing but build the string
// from their parameters (a key constructor extracted by a refactoring).
func concatOperands(v ssa.Value) []ssa.Value { return concatOperandsN(v, 0) }

func concatOperandsN(v ssa.Value, depth int) []ssa.Value {
	switch x := v.(type) {
	case *ssa.BinOp:
		if x.Op == token.ADD {
			return append(concatOperandsN(x.X, depth), concatOperandsN(x.Y, depth)...)
		}
	case *ssa.Convert:
		if bt, ok := x.X.Type().Underlying().(*types.Basic); ok && bt.Info()&types.IsString != 0 {
			return concatOperandsN(x.X, depth)
		}
		if sl, ok := x.X.Type().Underlying().(*types.Slice); ok {
			if bt, ok := sl.Elem().Underlying().(*types.Basic); ok && bt.Kind() == types.Byte {
				return concatOperandsN(x.X, depth)
			}
		}
	case *ssa.UnOp:
		// a key built once outside the transaction closure and captured by it
		if x.Op == token.MUL {
			switch cell := x.X.(type) {
			case *ssa.FreeVar:
				if sv := ssax.CapturedSingleStore(cell); sv != nil {
					return concatOperandsN(sv, depth)
				}
				// built step by step before the closure was made: its last value
				if al := capturedCell(cell); al != nil {
					if st := lastStraightStore(al, nil); st != nil {
						return concatOperandsN(st.Val, depth)
					}
				}
			case *ssa.Alloc:
				if sv := ssax.SingleStore(cell); sv != nil {
					return concatOperandsN(sv, depth)
				}
				if st := lastStraightStore(cell, x); st != nil {
					return concatOperandsN(st.Val, depth)
				}
			}
		}
	case *ssa.MakeSlice:
		// make([]byte, 0, n): the empty start of a key that is appended to
		if n, ok := ssax.ConstInt(x.Len); ok && n == 0 {
			return nil
		}
	case *ssa.Call:
		// append(prefix, rest...) concatenates byte strings
		if bi, ok := x.Call.Value.(*ssa.Builtin); ok && bi.Name() == "append" && len(x.Call.Args) == 2 {
			return append(concatOperandsN(x.Call.Args[0], depth), concatOperandsN(x.Call.Args[1], depth)...)
		}
		g := x.Call.StaticCallee()
		if g == nil || depth > 2 || !ssax.InModule(g) {
			break
		}
		var ret *ssa.Return
		nret := 0
		for _, b := range g.Blocks {
			if r, ok := b.Instrs[len(b.Instrs)-1].(*ssa.Return); ok && b != g.Recover {
				ret = r
				nret++
			}
		}
		if nret != 1 || len(ret.Results) != 1 {
			break
		}
		inner := concatOperandsN(ret.Results[0], depth+1)
		if len(inner) < 2 {
			break
		}
		var out []ssa.Value
		for _, o := range inner {
			if p, ok := o.(*ssa.Parameter); ok {
				for i, q := range g.Params {
					if q == p && i < len(x.Call.Args) {
						out = append(out, concatOperandsN(x.Call.Args[i], depth+1)...)
					}
				}
				continue
			}
			out = append(out, o)
		}
		return out
	}
	return []ssa.Value{v}
}

// isDelimiter: the operand is the constant key delimiter (directly or through the named constant).
func isDelimiter(v ssa.Value, delim string) bool {
	s, ok := ssax.ConstString(v)
	return ok && s == delim
}

func Tenant(w *load.World, c *core.Collector) {
	shardRoot(w, c)
	headerVerbatim(w, c)
	collectionLiteralsScoped(w, c)
	props := []string{"C16"}
	delim := "/"
	if p := w.ByPath[clusterPkg]; p != nil {
		if o := p.Types.Scope().Lookup("DBDELIMITER"); o != nil {
			if cst, ok := o.(interface {
				Val() interface{ ExactString() string }
			}); ok {
				_ = cst
			}
		}
	}
	migration := func(f *ssa.Function) bool {
		k := load.FnKey(f)
		return strings.Contains(k, "syncUserCollections") || strings.Contains(k, "RPCSetNodeKeyValue")
	}
	n := 0
	// literals that are handed the user collections bucket by a helper ("readUserCollections(func(b
	// Bucket) error {…})": the helper opens the transaction, gets the bucket and calls its argument
	// with it): literal -> index of the bucket parameter
	bucketParam := map[*ssa.Function]int{}
	for _, h := range clusterFns(w) {
		got := map[ssa.Value]bool{}
		for _, b := range h.Blocks {
			for _, in := range b.Instrs {
				call, ok := in.(*ssa.Call)
				if ok && call.Call.IsInvoke() && ssax.TypeName(call.Call.Value.Type()) == "diskstore.BucketManager" && call.Call.Method.Name() == "Get" && ssax.Prov(call.Call.Args[0])["global:USERCOLSBUCKETKEY"] {
					if v := resultValue(call, 0); v != nil {
						got[v] = true
					}
				}
			}
		}
		if len(got) == 0 {
			continue
		}
		for _, b := range h.Blocks {
			for _, in := range b.Instrs {
				call, ok := in.(*ssa.Call)
				if !ok || call.Call.IsInvoke() || call.Call.StaticCallee() != nil {
					continue
				}
				for j, a := range call.Call.Args {
					if !got[a] {
						continue
					}
					for _, lit := range funcValuesOf(w, call.Call.Value, 0) {
						bucketParam[lit] = j
					}
				}
			}
		}
	}
	for _, f := range clusterFns(w) {
		// buckets obtained as bm.Get(USERCOLSBUCKETKEY)
		userBuckets := map[ssa.Value]bool{}
		if j, ok := bucketParam[f]; ok && j < len(f.Params) {
			userBuckets[f.Params[j]] = true
		}
		for _, b := range f.Blocks {
			for _, in := range b.Instrs {
				call, ok := in.(*ssa.Call)
				if !ok || !call.Call.IsInvoke() || ssax.TypeName(call.Call.Value.Type()) != "diskstore.BucketManager" || call.Call.Method.Name() != "Get" {
					continue
				}
				if ssax.Prov(call.Call.Args[0])["global:USERCOLSBUCKETKEY"] {
					if v := resultValue(call, 0); v != nil {
						userBuckets[v] = true
					}
				}
			}
		}
		if len(userBuckets) == 0 {
			continue
		}
		for _, b := range f.Blocks {
			for _, in := range b.Instrs {
				call, ok := in.(*ssa.Call)
				if !ok || !call.Call.IsInvoke() || !userBuckets[call.Call.Value] {
					continue
				}
				m := call.Call.Method.Name()
				switch m {
				case "Get", "Put", "Delete", "PrefixScan":
				case "ForEach", "RangeScan":
					key := fmt.Sprintf("scan:%s@%s", m, load.FnKey(f))
					if migration(f) {
						c.Add("TENANT", key, core.Exception, w.At(in), "start-up migration copies whole records between nodes", props...)
					} else {
						c.Add("TENANT", key, core.Violation, w.At(in), "an unscoped scan over every user's collection records", props...)
					}
					continue
				default:
					continue
				}
				n++
				key := fmt.Sprintf("key:%s@%s", m, load.FnKey(f))
				fromRecords := false
				if len(call.Call.Args) > 0 {
					for k := range provDeep(w, call.Call.Args[0]) {
						if strings.HasSuffix(k, "field:KeyValues") {
							fromRecords = true // the keys of a batch of records that is being moved as it is
						}
					}
				}
				if migration(f) || fromRecords {
					c.Add("TENANT", key, core.Exception, w.At(in), "start-up migration moves records under the keys they already have", props...)
					continue
				}
				kv := call.Call.Args[0]
				if cv, ok := kv.(*ssa.Convert); ok {
					kv = cv.X
				}
				ops := concatOperands(kv)
				var probs []string
				if len(ops) < 2 || !ssax.Prov(ops[0])["field:UserId"] {
					probs = append(probs, "the key does not start with the request's user id")
				}
				if len(ops) >= 2 {
					if s, ok := ssax.ConstString(ops[1]); !ok || s != delim {
						probs = append(probs, "the user id is not followed by the delimiter")
					}
				}
				if m == "PrefixScan" {
					if len(ops) != 2 {
						probs = append(probs, "the scan prefix is not exactly user id + delimiter")
					}
				} else if len(ops) != 3 {
					probs = append(probs, "the key is not user id + delimiter + collection id")
				} else {
					o := ssax.Prov(ops[2])
					if !o["field:Id"] && !o["field:CollectionId"] {
						probs = append(probs, "the last key component is not a collection id")
					}
				}
				if len(probs) > 0 {
					c.Add("TENANT", key, core.Violation, w.At(in), strings.Join(probs, "; "), props...)
				} else {
					c.Add("TENANT", key, core.OK, w.At(in), "", props...)
				}
			}
		}
	}
	c.Count("user_collection_key_sites", n)
	if n < 7 {
		c.Add("TENANT", "anchor:key-sites", core.Undecided, "", fmt.Sprintf("found %d key sites on the user collections bucket, expected at least 7", n), props...)
	}
	// directories
	nDir := 0
	for _, f := range clusterFns(w) {
		if !strings.Contains(load.FnKey(f), "ShardManager)") {
			continue
		}
		for _, b := range f.Blocks {
			for _, in := range b.Instrs {
				call, ok := in.(*ssa.Call)
				if !ok {
					continue
				}
				g := call.Call.StaticCallee()
				if g == nil {
					continue
				}
				var arg ssa.Value
				switch {
				case g.String() == "os.RemoveAll" || g.String() == "os.Remove" || g.String() == "os.MkdirAll":
					arg = call.Call.Args[0]
				case load.FnKey(g) == "shard.NewShard":
					arg = call.Call.Args[0]
				}
				if arg == nil {
					continue
				}
				nDir++
				key := fmt.Sprintf("dir:%s@%s", g.Name(), load.FnKey(f))
				// a path (or a part of it) handed in as a parameter is judged where it is built: provenance
				// follows parameters to the call sites
				built := deepHas(w, arg, "field:UserId") && deepHas(w, arg, "field:Id")
				joined := false
				for k := range provDeep(w, arg) {
					if strings.Contains(k, "call:path/filepath.Join") {
						joined = true
					}
				}
				built = built && joined
				comp := transformedUserComponent(arg, 0)
				for _, pv := range paramsIn(arg, 0) {
					for _, sv := range argSources(w, pv, 0) {
						if cpt := transformedUserComponent(sv, 0); cpt != "" {
							comp = cpt
						}
					}
				}
				if built {
					// and the user id enters the path as it is: a component computed from it (sanitised,
					// truncated, hashed) lets distinct ids share a directory
					if comp != "" {
						c.Add("TENANT", key, core.Violation, w.At(in), "the user id does not enter the directory path as it is but through "+comp+": distinct user ids can map to the same directory", props...)
					} else {
						c.Add("TENANT", key, core.OK, w.At(in), "", props...)
					}
				} else {
					c.Add("TENANT", key, core.Violation, w.At(in), "the path is not built from the collection's user id and id: the operation is not confined to one tenant's collection", props...)
				}
			}
		}
	}
	c.Count("shard_directory_sites", nDir)
	if nDir < 4 {
		c.Add("TENANT", "anchor:dir-sites", core.Undecided, "", fmt.Sprintf("found %d directory operations in the shard manager, expected at least 4", nDir), props...)
	}
	// HTTP layer: user id provenance
	nU := 0
	for _, f := range w.Fns {
		p := load.PkgPath(f)
		if p != load.Mod+"/httpapi/v1" && p != load.Mod+"/httpapi/v2" {
			continue
		}
		for _, b := range f.Blocks {
			for _, in := range b.Instrs {
				var v ssa.Value
				what := ""
				switch x := in.(type) {
				case *ssa.Store:
					if fa, ok := x.Addr.(*ssa.FieldAddr); ok && fieldOf(fa) == "models.Collection.UserId" {
						v, what = x.Val, "Collection.UserId"
					}
				case *ssa.Call:
					if g := x.Call.StaticCallee(); g != nil && strings.HasPrefix(load.FnKey(g), "(*cluster.ClusterNode).") {
						for i := 0; i < g.Signature.Params().Len(); i++ {
							if g.Signature.Params().At(i).Name() == "userId" {
								v, what = x.Call.Args[i+1], g.Name()+"(userId)"
							}
						}
					}
				}
				if v == nil {
					continue
				}
				nU++
				o := provDeep(w, v)
				key := fmt.Sprintf("user-id:%s@%s", what, load.FnKey(f))
				fromHeaders, isUser, other := false, false, false
				for k := range o {
					switch {
					case strings.HasSuffix(k, "call:"+load.Mod+"/httpapi/middleware.GetAppHeaders"):
						fromHeaders = true
					case strings.HasSuffix(k, "field:UserId"):
						isUser = true
					case strings.HasPrefix(k, "param:"), strings.Contains(k, ":param:"), k == "const", strings.HasSuffix(k, ":const"),
						strings.Contains(k, "call:(*net/http.Request).Context"), strings.Contains(k, "inlined:"), strings.Contains(k, "call:"+load.Mod+"/httpapi/middleware."),
						strings.Contains(k, "call:context.Context.Value"), strings.Contains(k, "other:*ssa.TypeAssert"), strings.Contains(k, "global:"):
					case strings.Contains(k, "field:Header"), strings.Contains(k, "call:(net/http.Header)"), strings.Contains(k, "PathValue"), strings.Contains(k, "field:URL"), strings.Contains(k, "FormValue"):
						other = true
					}
				}
				if fromHeaders && isUser && !other {
					c.Add("TENANT", key, core.OK, w.At(in), "", props...)
				} else {
					c.Add("TENANT", key, core.Violation, w.At(in), fmt.Sprintf("the user id does not come from the authenticated request headers (origins %v)", o.Keys()), props...)
				}
			}
		}
	}
	// composite identifiers: wherever a user id is glued to another value to form a key (bucket key,
	// cache key, map key, path), a constant separator stands between them; "ab"+"cdef" == "abc"+"def"
	nCat := 0
	for _, f := range w.Fns {
		p := load.PkgPath(f)
		if p != load.Mod+"/httpapi/v1" && p != load.Mod+"/httpapi/v2" && p != clusterPkg && p != load.Mod+"/httpapi/middleware" {
			continue
		}
		for _, b := range f.Blocks {
			for _, in := range b.Instrs {
				bo, ok := in.(*ssa.BinOp)
				if !ok || bo.Op != token.ADD {
					continue
				}
				if bt, ok := bo.Type().Underlying().(*types.Basic); !ok || bt.Info()&types.IsString == 0 {
					continue
				}
				// only roots of a concatenation
				root := true
				for _, r := range *bo.Referrers() {
					if rb, ok := r.(*ssa.BinOp); ok && rb.Op == token.ADD {
						root = false
					}
				}
				if !root {
					continue
				}
				// the input of a hash is not a key: routing hashes key+server on purpose
				hashed := false
				for _, r := range *bo.Referrers() {
					var cc *ssa.CallCommon
					switch x := r.(type) {
					case *ssa.Call:
						cc = x.Common()
						if hashThroughParam(w, x) != "" {
							hashed = true
						}
					case *ssa.Convert:
						for _, rr := range *x.Referrers() {
							if c2, ok := rr.(*ssa.Call); ok {
								cc = c2.Common()
							}
						}
					}
					if cc != nil && cc.StaticCallee() != nil {
						for _, h := range pureHashes {
							if strings.Contains(cc.StaticCallee().String(), h) {
								hashed = true
							}
						}
					}
				}
				if hashed {
					continue
				}
				ops := concatOperands(bo)
				isUser := func(v ssa.Value) bool {
					if _, isC := v.(*ssa.Const); isC {
						return false
					}
					for k := range provDeep(w, v) {
						if strings.HasSuffix(k, "field:UserId") {
							return true
						}
					}
					return false
				}
				isConst := func(v ssa.Value) bool {
					s, ok := ssax.ConstString(v)
					return ok && s != ""
				}
				hasUser := false
				bad := false
				for i, o := range ops {
					if !isUser(o) {
						continue
					}
					hasUser = true
					if i+1 < len(ops) && !isConst(ops[i+1]) {
						bad = true
					}
					if i > 0 && !isConst(ops[i-1]) {
						bad = true
					}
				}
				if !hasUser {
					continue
				}
				nCat++
				key := fmt.Sprintf("separator:%s", load.FnKey(f))
				if bad {
					c.Add("TENANT", key, core.Violation, w.At(in), "a user id is concatenated with another variable part without a constant separator between them: different (user, name) pairs collide on the same key", props...)
				} else {
					c.Add("TENANT", key, core.OK, w.At(in), "", props...)
				}
			}
		}
	}
	// prefix tests on keys: in the cluster layer a key (or path) is only ever matched against a prefix
	// that ends in a constant separator; a bare identifier as prefix also matches every identifier it is
	// a prefix of ("user1" matches the records of "user10")
	nPre := 0
	for _, f := range w.Fns {
		if load.PkgPath(f) != clusterPkg {
			continue
		}
		for _, b := range f.Blocks {
			for _, in := range b.Instrs {
				call, ok := in.(*ssa.Call)
				if !ok {
					continue
				}
				g := call.Call.StaticCallee()
				if g == nil || (g.String() != "strings.HasPrefix" && g.String() != "bytes.HasPrefix") {
					continue
				}
				nPre++
				ops := concatOperands(call.Call.Args[1])
				last := ops[len(ops)-1]
				key := "prefix-test:" + load.FnKey(f)
				if sc, isC := ssax.ConstString(last); isC && sc != "" {
					c.Add("TENANT", key, core.OK, w.At(in), "", props...)
				} else {
					c.Add("TENANT", key, core.Violation, w.At(in), "a key is matched against a prefix that does not end in the delimiter: an identifier that merely starts with this one matches too, so its records are treated as belonging to the same owner", "C16", "C13", "C14")
				}
			}
		}
	}
	c.Count("prefix_tests_in_cluster", nPre)
	c.Count("user_id_concatenations", nCat)
	c.Count("user_id_uses_in_handlers", nU)
	if nU < 6 {
		c.Add("TENANT", "anchor:user-id-uses", core.Undecided, "", fmt.Sprintf("found %d user id uses in handlers, expected at least 6", nU), props...)
	}
}

// transformedUserComponent walks a path value back to its filepath.Join calls and reports a Join
// argument that derives from a user id without being the UserId field (or a parameter / variable that
// carries it unchanged): the name of the function that transformed it.
func transformedUserComponent(v ssa.Value, depth int) string {
	return transformedUserComponentC(v, map[ssa.Value]bool{}, depth)
}

// carrying: parameters of the helper being looked into that were handed a user id by the caller
func transformedUserComponentC(v ssa.Value, carrying map[ssa.Value]bool, depth int) string {
	if depth > 6 {
		return ""
	}
	carriesUser := func(x ssa.Value) bool {
		if carrying[x] {
			return true
		}
		o := ssax.Prov(x)
		if o["field:UserId"] {
			return true
		}
		for p := range carrying {
			if pp, ok := p.(*ssa.Parameter); ok && o["param:"+pp.Name()] {
				return true
			}
		}
		return false
	}
	switch x := v.(type) {
	case *ssa.Phi:
		for _, e := range x.Edges {
			if r := transformedUserComponentC(e, carrying, depth+1); r != "" {
				return r
			}
		}
	case *ssa.Call:
		g := x.Call.StaticCallee()
		if g == nil {
			return ""
		}
		if g.String() == "path/filepath.Join" {
			// variadic: elements of the backing array
			for _, a := range x.Call.Args {
				sl, ok := a.(*ssa.Slice)
				if !ok {
					continue
				}
				al, ok := sl.X.(*ssa.Alloc)
				if !ok {
					continue
				}
				for _, r := range *al.Referrers() {
					ia, ok := r.(*ssa.IndexAddr)
					if !ok {
						continue
					}
					for _, rr := range *ia.Referrers() {
						st, ok := rr.(*ssa.Store)
						if !ok || st.Addr != ssa.Value(ia) {
							continue
						}
						if res := transformedUserComponentC(st.Val, carrying, depth+1); res != "" {
							return res
						}
						if c2, ok := st.Val.(*ssa.Call); ok && c2.Call.StaticCallee() != nil && c2.Call.StaticCallee().String() != "path/filepath.Join" {
							if carriesUser(c2) && !returnsJoinedPath(c2.Call.StaticCallee(), 0) {
								return load.Short(c2.Call.StaticCallee().String())
							}
						}
					}
				}
			}
			return ""
		}
		if ssax.InModule(g) {
			// a path helper of the module: look at what it returns, knowing which of its parameters
			// were given a user id
			inner := map[ssa.Value]bool{}
			for i, p := range g.Params {
				if i < len(x.Call.Args) && carriesUser(x.Call.Args[i]) {
					inner[p] = true
				}
			}
			for _, b := range g.Blocks {
				if r, ok := b.Instrs[len(b.Instrs)-1].(*ssa.Return); ok && len(r.Results) > 0 {
					if res := transformedUserComponentC(r.Results[0], inner, depth+1); res != "" {
						return res
					}
				}
			}
		}
	}
	return ""
}

// returnsJoinedPath: a module helper all of whose returns are filepath.Join results (or results of such helpers).
func returnsJoinedPath(g *ssa.Function, depth int) bool {
	if !ssax.InModule(g) || depth > 3 {
		return false
	}
	n := 0
	for _, b := range g.Blocks {
		r, ok := b.Instrs[len(b.Instrs)-1].(*ssa.Return)
		if !ok || len(r.Results) == 0 {
			continue
		}
		n++
		call, ok := r.Results[0].(*ssa.Call)
		if !ok || call.Call.StaticCallee() == nil {
			return false
		}
		cg := call.Call.StaticCallee()
		if cg.String() != "path/filepath.Join" && !returnsJoinedPath(cg, depth+1) {
			return false
		}
	}
	return n > 0
}

// argSources: the values a parameter stands for at the static call sites of its
// function (the value itself when it is not a parameter).
func argSources(w *load.World, v ssa.Value, depth int) []ssa.Value {
	p, ok := v.(*ssa.Parameter)
	if !ok || depth > 2 {
		return []ssa.Value{v}
	}
	f := p.Parent()
	idx := -1
	for i, q := range f.Params {
		if q == p {
			idx = i
		}
	}
	var out []ssa.Value
	for _, g := range w.Fns {
		for _, b := range g.Blocks {
			for _, in := range b.Instrs {
				ci, ok := in.(ssa.CallInstruction)
				if !ok || ci.Common().StaticCallee() != f || idx >= len(ci.Common().Args) {
					continue
				}
				out = append(out, argSources(w, ci.Common().Args[idx], depth+1)...)
			}
		}
	}
	if len(out) == 0 {
		return []ssa.Value{v}
	}
	return out
}

// paramsIn: the parameters that occur in the expression that computes v (through calls, conversions, concatenations).
func paramsIn(v ssa.Value, depth int) []ssa.Value {
	if depth > 4 {
		return nil
	}
	switch x := v.(type) {
	case *ssa.Parameter:
		return []ssa.Value{x}
	case *ssa.Call:
		var out []ssa.Value
		for _, a := range x.Call.Args {
			out = append(out, paramsIn(a, depth+1)...)
		}
		return out
	case *ssa.Convert:
		return paramsIn(x.X, depth+1)
	case *ssa.BinOp:
		return append(paramsIn(x.X, depth+1), paramsIn(x.Y, depth+1)...)
	case *ssa.Slice:
		// variadic argument list: the stored elements
		if al, ok := x.X.(*ssa.Alloc); ok {
			var out []ssa.Value
			for _, r := range *al.Referrers() {
				if ia, ok := r.(*ssa.IndexAddr); ok {
					for _, rr := range *ia.Referrers() {
						if st, ok := rr.(*ssa.Store); ok {
							out = append(out, paramsIn(st.Val, depth+1)...)
						}
					}
				}
			}
			return out
		}
	}
	return nil
}

// failEdgeReturnsError: every return reachable from the failing edge yields a non-nil error.
func failEdgeReturnsError(g *ssa.Function, e ssax.Edge) bool {
	start := e.From.Succs[e.Succ]
	seen := map[*ssa.BasicBlock]bool{}
	ok := true
	found := false
	var dfs func(b *ssa.BasicBlock)
	dfs = func(b *ssa.BasicBlock) {
		if seen[b] {
			return
		}
		seen[b] = true
		if ret, isRet := b.Instrs[len(b.Instrs)-1].(*ssa.Return); isRet {
			found = true
			n := len(ret.Results)
			if n == 0 || !isErrorType(ret.Results[n-1].Type()) || ssax.IsNilConst(ssax.ReturnOperand(ret, n-1)) {
				ok = false
			}
			return
		}
		for _, s := range b.Succs {
			dfs(s)
		}
	}
	dfs(start)
	return ok && found
}

// onlyServesDecodeValid: f (or the function that contains the literal f) is an
// unexported helper whose every static call site lies in DecodeValid or in
// another such helper.
func onlyServesDecodeValid(w *load.World, f *ssa.Function, depth int) bool {
	root := f
	for root.Parent() != nil {
		root = root.Parent()
	}
	if strings.HasPrefix(load.FnKey(root), "httpapi/utils.DecodeValid") {
		return true
	}
	if depth > 2 || !strings.HasSuffix(load.PkgPath(root), "/httpapi/utils") {
		return false
	}
	if n := root.Name(); n == "" || n[0] < 'a' || n[0] > 'z' {
		return false
	}
	sites := 0
	for _, g := range w.Fns {
		for _, b := range g.Blocks {
			for _, in := range b.Instrs {
				ci, ok := in.(ssa.CallInstruction)
				if !ok || ci.Common().StaticCallee() != root {
					continue
				}
				sites++
				if !onlyServesDecodeValid(w, g, depth+1) {
					return false
				}
			}
		}
	}
	return sites > 0
}

// queryBlocksValidated: a query has no type tag — which option block applies is only known
// once the property's index type is looked up in the schema, later. Query.Validate therefore
// validates every block that is present: on every successful way through it, for every option
// block X that it validates at all, the test "X != nil" that guards X.Validate() was passed.
// (A switch over the blocks validates the first one present and lets the others through.)
func queryBlocksValidated(w *load.World, c *core.Collector) {
	props := []string{"C18"}
	f := findFn(w, "(models.Query).Validate")
	if f == nil {
		c.Add("VALID", "anchor:Query.Validate", core.Undecided, "", "models.Query.Validate not found", props...)
		return
	}
	// tests of a payload pointer whose not-nil side calls Validate on that payload
	f = homeOf(f, func(g *ssa.Function) bool {
		return len(queryBlockTests(g))+len(queryBlockTable(g))+len(queryBlockHelperCalls(g)) >= 3
	})
	tests := queryBlockTests(f)
	for n, bs := range queryBlockTable(f) {
		tests[n] = append(tests[n], bs...)
	}
	for n, bs := range queryBlockHelperCalls(f) {
		tests[n] = append(tests[n], bs...)
	}
	var names []string
	for n := range tests {
		names = append(names, n)
	}
	sort.Strings(names)
	if len(names) < 5 {
		c.Add("VALID", "anchor:query-blocks", core.Undecided, w.Position(f.Pos()), fmt.Sprintf("found %d option blocks that Query.Validate validates, expected at least 5", len(names)), props...)
	}
	for _, n := range names {
		// a successful return reached without going through any of the tests of this block
		var banned []ssax.Edge
		for _, tb := range tests[n] {
			for i := range tb.Succs {
				banned = append(banned, ssax.Edge{From: tb, Succ: i})
			}
		}
		bad := ""
		for _, ex := range successExits(f) {
			if reachableWithoutEdges(f, banned, ex.In.Block()) {
				isTest := false
				for _, tb := range tests[n] {
					if tb == ex.In.Block() {
						isTest = true
					}
				}
				if !isTest {
					bad = w.At(ex.In)
				}
			}
		}
		key := "query-block-validated:" + n
		if bad != "" {
			c.Add("VALID", key, core.Violation, bad, fmt.Sprintf("a query can pass validation without its %s block having been looked at (another block was present and validated instead): invalid options reach the index that the property really has", n), props...)
		} else {
			c.Add("VALID", key, core.OK, w.Position(f.Pos()), "", props...)
		}
	}
}

// queryBlockHelperCalls: "if err := validateOptions(name, q.X); err != nil { return err }" — the
// block is handed to a helper that validates what it is given when that is not nil (a nil test
// of its parameter, Validate on the not-nil side only). The block of the call counts as the test.
func queryBlockHelperCalls(f *ssa.Function) map[string][]*ssa.BasicBlock {
	out := map[string][]*ssa.BasicBlock{}
	validatesParam := func(h *ssa.Function, pi int) bool {
		if h == nil || len(h.Blocks) == 0 || pi >= len(h.Params) || !ssax.InModule(h) {
			return false
		}
		p := h.Params[pi]
		for _, vb := range h.Blocks {
			for _, in := range vb.Instrs {
				call, ok := in.(*ssa.Call)
				if !ok || len(call.Call.Args) == 0 {
					continue
				}
				nm := ""
				if call.Call.IsInvoke() {
					nm = call.Call.Method.Name()
				} else if g := call.Call.StaticCallee(); g != nil {
					nm = g.Name()
				}
				if nm != "Validate" {
					continue
				}
				recv := call.Call.Args[0]
				if call.Call.IsInvoke() {
					recv = call.Call.Value
				}
				for i := 0; i < 3; i++ {
					switch x := recv.(type) {
					case *ssa.MakeInterface:
						recv = x.X
						continue
					case *ssa.ChangeInterface:
						recv = x.X
						continue
					}
					break
				}
				if derefOnce(recv) != ssa.Value(p) {
					continue
				}
				nn, _ := ssax.NilTests(h, p)
				for _, e := range nn {
					if ssax.OnlyViaEdge(e.From, e.Succ, vb) {
						return true
					}
				}
			}
		}
		return false
	}
	for _, b := range f.Blocks {
		for _, in := range b.Instrs {
			call, ok := in.(*ssa.Call)
			if !ok || call.Call.IsInvoke() {
				continue
			}
			h := call.Call.StaticCallee()
			if h == nil {
				continue
			}
			for i, a := range call.Call.Args {
				_, st, idx, ok := payloadLoad(a)
				if !ok {
					continue
				}
				if validatesParam(h, i) {
					out[st.Field(idx).Name()] = append(out[st.Field(idx).Name()], b)
				}
			}
		}
	}
	return out
}

func derefOnce(v ssa.Value) ssa.Value {
	if ld, ok := v.(*ssa.UnOp); ok && ld.Op == token.MUL {
		// the receiver of a value-receiver method is the loaded struct: its address is the payload pointer
		return ld.X
	}
	return v
}

func queryBlockTests(f *ssa.Function) map[string][]*ssa.BasicBlock {
	tests := map[string][]*ssa.BasicBlock{}
	for _, b := range f.Blocks {
		ifi, ok := b.Instrs[len(b.Instrs)-1].(*ssa.If)
		if !ok {
			continue
		}
		bo, neg, ok := condBinOp(ifi.Cond, 0)
		if !ok || (bo.Op != token.EQL && bo.Op != token.NEQ) || !(ssax.IsNilConst(bo.X) || ssax.IsNilConst(bo.Y)) {
			continue
		}
		other := bo.X
		if ssax.IsNilConst(bo.X) {
			other = bo.Y
		}
		owner, st, idx, ok := payloadLoad(other)
		_ = owner
		if !ok {
			continue
		}
		nonNil := 0
		if (bo.Op == token.EQL) != neg {
			nonNil = 1
		}
		name := st.Field(idx).Name()
		// a Validate call on this payload that runs only on the not-nil edge
		for _, vb := range f.Blocks {
			for _, in := range vb.Instrs {
				call, ok := in.(*ssa.Call)
				if !ok || call.Call.StaticCallee() == nil || call.Call.StaticCallee().Name() != "Validate" || len(call.Call.Args) == 0 {
					continue
				}
				_, st2, idx2, ok := payloadLoad(derefOnce(call.Call.Args[0]))
				if !ok || st2 != st || idx2 != idx {
					continue
				}
				if ssax.OnlyViaEdge(b, nonNil, vb) {
					tests[name] = append(tests[name], b)
				}
			}
		}
	}
	return tests
}

// shardRoot: every path into the tree of shard directories is built from the shard manager's own
// root directory. The node has a second root (for its own database); in the shipped configurations
// the two coincide, so a path built from the wrong one works everywhere it is tried and puts a
// received shard where the shard manager never looks on a node where they differ.
func shardRoot(w *load.World, c *core.Collector) {
	props := []string{"C14", "C16"}
	// the struct whose RootDir the shard manager itself uses
	var ref *types.Struct
	for _, f := range clusterFns(w) {
		isMgr := f.Signature.Recv() != nil && ssax.TypeName(f.Signature.Recv().Type()) == "cluster.ShardManager"
		if !isMgr {
			// its constructor: a root computed once at construction is the manager's own
			res := f.Signature.Results()
			for i := 0; i < res.Len(); i++ {
				if ssax.TypeName(res.At(i).Type()) == "cluster.ShardManager" {
					isMgr = true
				}
			}
		}
		if !isMgr {
			continue
		}
		for _, b := range f.Blocks {
			for _, in := range b.Instrs {
				if fa, ok := in.(*ssa.FieldAddr); ok {
					if st := ssax.StructOf(fa.X.Type()); st != nil && st.Field(fa.Field).Name() == "RootDir" {
						ref = st
					}
				}
				if fv, ok := in.(*ssa.Field); ok {
					if st := ssax.StructOf(fv.X.Type()); st != nil && st.Field(fv.Field).Name() == "RootDir" {
						ref = st
					}
				}
			}
		}
	}
	if ref == nil {
		c.Add("TENANT", "anchor:shard-root", core.Undecided, "", "the shard manager's root directory field was not found", props...)
		return
	}
	n := 0
	for _, f := range clusterFns(w) {
		for _, b := range f.Blocks {
			for _, in := range b.Instrs {
				call, ok := in.(*ssa.Call)
				if !ok || call.Call.StaticCallee() == nil || call.Call.StaticCallee().String() != "path/filepath.Join" {
					continue
				}
				parts := joinParts(call)
				into := false
				for _, p := range parts {
					if s, ok := ssax.ConstString(p); ok && s == "userCollections" {
						into = true
					}
				}
				if !into || len(parts) == 0 {
					continue
				}
				n++
				key := "shard-root:" + load.FnKey(f)
				okRoot := false
				root := parts[0]
				for i := 0; i < 3; i++ {
					if fv, isFv := root.(*ssa.Field); isFv {
						if st := ssax.StructOf(fv.X.Type()); st != nil && st.Field(fv.Field).Name() == "RootDir" {
							okRoot = st == ref
						}
						break
					}
					ld, isLd := root.(*ssa.UnOp)
					if !isLd || ld.Op != token.MUL {
						break
					}
					if fa, isFa := ld.X.(*ssa.FieldAddr); isFa {
						if st := ssax.StructOf(fa.X.Type()); st != nil && st.Field(fa.Field).Name() == "RootDir" {
							okRoot = st == ref
						}
						break
					}
					if al, isAl := ld.X.(*ssa.Alloc); isAl {
						if sv := ssax.SingleStore(al); sv != nil {
							root = sv
							continue
						}
					}
					break
				}
				if _, isParam := peelToParam(root).(*ssa.Parameter); isParam {
					okRoot = true // handed in by the caller: checked where the argument is built
				}
				if okRoot {
					c.Add("TENANT", key, core.OK, w.At(in), "", props...)
				} else {
					c.Add("TENANT", key, core.Violation, w.At(in), "a path into the shard directories is not rooted at the shard manager's own root directory: on a node where the node root and the shard root differ, the shard lands where the shard manager never looks (and the sender, seeing a matching checksum, deletes its copy)", props...)
				}
			}
		}
	}
	c.Count("paths_into_shard_tree", n)
	if n < 3 {
		c.Add("TENANT", "anchor:shard-paths", core.Undecided, "", fmt.Sprintf("found %d paths built into the shard directory tree, expected at least 3", n), props...)
	}
}

// joinParts: the elements handed to filepath.Join (the variadic slice unpacked).
func joinParts(call *ssa.Call) []ssa.Value {
	if len(call.Call.Args) != 1 {
		return call.Call.Args
	}
	sl, ok := call.Call.Args[0].(*ssa.Slice)
	if !ok {
		return nil
	}
	arr, ok := sl.X.(*ssa.Alloc)
	if !ok {
		return nil
	}
	byIdx := map[int64]ssa.Value{}
	for _, r := range *arr.Referrers() {
		ia, ok := r.(*ssa.IndexAddr)
		if !ok {
			continue
		}
		idx, isC := ssax.ConstInt(ia.Index)
		if !isC {
			continue
		}
		for _, rr := range *ia.Referrers() {
			if st, ok := rr.(*ssa.Store); ok && st.Addr == ssa.Value(ia) {
				byIdx[idx] = st.Val
			}
		}
	}
	var out []ssa.Value
	for i := int64(0); i < int64(len(byIdx)); i++ {
		out = append(out, byIdx[i])
	}
	return out
}

// headerVerbatim: the user id the API works with is the X-User-Id header as it arrived. The id
// is a component of every record key and directory; the delimiter is kept out of it by the
// front end. Any transformation between the header and AppHeaders.UserId (unescaping, trimming,
// case folding) can map two different tenants onto one id, or bring the delimiter back in.
func headerVerbatim(w *load.World, c *core.Collector) {
	props := []string{"C16"}
	n := 0
	for _, f := range w.Fns {
		if !load.InMod(f) || !strings.Contains(load.PkgPath(f), "/httpapi") {
			continue
		}
		for _, b := range f.Blocks {
			for _, in := range b.Instrs {
				st, ok := in.(*ssa.Store)
				if !ok {
					continue
				}
				fa, ok := st.Addr.(*ssa.FieldAddr)
				if !ok {
					continue
				}
				stt := ssax.StructOf(fa.X.Type())
				if stt == nil || ssax.TypeName(fa.X.Type()) != "middleware.AppHeaders" || stt.Field(fa.Field).Name() != "UserId" {
					continue
				}
				n++
				key := "user-id-verbatim:" + load.FnKey(f)
				v := st.Val
				for i := 0; i < 3; i++ {
					if ld, ok := v.(*ssa.UnOp); ok && ld.Op == token.MUL {
						if al, ok := ld.X.(*ssa.Alloc); ok {
							if sv := ssax.SingleStore(al); sv != nil {
								v = sv
								continue
							}
						}
					}
					break
				}
				call, isCall := v.(*ssa.Call)
				if isCall && call.Call.StaticCallee() != nil && call.Call.StaticCallee().String() == "(net/http.Header).Get" {
					c.Add("TENANT", key, core.OK, w.At(in), "", props...)
				} else {
					c.Add("TENANT", key, core.Violation, w.At(in), "the user id is not the X-User-Id header as it arrived but something computed from it: two header values can become one id, and a decoded value can contain the delimiter that separates the user id from the collection id in every key and path", props...)
				}
			}
		}
	}
	c.Count("user_id_header_bindings", n)
	if n < 1 {
		c.Add("TENANT", "anchor:user-id-binding", core.Undecided, "", "the place where AppHeaders.UserId is set from the request was not found", props...)
	}
}

// filtersValidated: a ranking query may carry a pre-filter, which is a whole query of its own.
// Every option block that has a Filter field gets that filter validated on the way through
// Query.Validate — directly in the block's own Validate, or by a helper that collects the filters.
// A block that is forgotten lets an arbitrary unvalidated query tree through to the index code.
func filtersValidated(w *load.World, c *core.Collector) {
	props := []string{"C18"}
	root := findFn(w, "(models.Query).Validate")
	if root == nil {
		return
	}
	// option blocks with a Filter *Query field
	want := map[string]bool{}
	if pkg := w.ByPath[load.Mod+"/models"]; pkg != nil {
		sc := pkg.Types.Scope()
		for _, nme := range sc.Names() {
			tn, ok := sc.Lookup(nme).(*types.TypeName)
			if !ok {
				continue
			}
			st, ok := tn.Type().Underlying().(*types.Struct)
			if !ok {
				continue
			}
			for i := 0; i < st.NumFields(); i++ {
				if st.Field(i).Name() == "Filter" && strings.HasSuffix(st.Field(i).Type().String(), "models.Query") {
					want["models."+nme] = true
				}
			}
		}
	}
	if len(want) < 3 {
		c.Add("VALID", "anchor:filter-blocks", core.Undecided, "", fmt.Sprintf("found %d option blocks with a Filter field, expected at least 3", len(want)), props...)
	}
	// which blocks' filters can a value be
	var filterOf func(v ssa.Value, depth int) map[string]bool
	filterOf = func(v ssa.Value, depth int) map[string]bool {
		out := map[string]bool{}
		if depth > 6 || v == nil {
			return out
		}
		add := func(m map[string]bool) {
			for k := range m {
				out[k] = true
			}
		}
		switch x := v.(type) {
		case *ssa.UnOp:
			if x.Op == token.MUL {
				if fa, ok := x.X.(*ssa.FieldAddr); ok {
					if st := ssax.StructOf(fa.X.Type()); st != nil && st.Field(fa.Field).Name() == "Filter" {
						out[ssax.TypeName(fa.X.Type())] = true
						return out
					}
				}
				if al, ok := x.X.(*ssa.Alloc); ok {
					for _, r := range *al.Referrers() {
						if st, ok := r.(*ssa.Store); ok && st.Addr == ssa.Value(al) {
							add(filterOf(st.Val, depth+1))
						}
					}
					return out
				}
				add(filterOf(x.X, depth+1))
			}
		case *ssa.Field:
			if st := ssax.StructOf(x.X.Type()); st != nil && st.Field(x.Field).Name() == "Filter" {
				out[ssax.TypeName(x.X.Type())] = true
			}
		case *ssa.Phi:
			for _, e := range x.Edges {
				add(filterOf(e, depth+1))
			}
		case *ssa.IndexAddr:
			add(filterOf(x.X, depth+1))
		case *ssa.Slice:
			add(filterOf(x.X, depth+1))
		case *ssa.Parameter:
			// a helper's parameter: what its callers pass
			for i, q := range x.Parent().Params {
				if q != x {
					continue
				}
				for _, site := range staticCallSites(w, x.Parent()) {
					if i < len(site.Common().Args) {
						add(filterOf(site.Common().Args[i], depth+1))
					}
				}
			}
		case *ssa.Call:
			// a helper that returns the collected filters: what it appends
			if g := x.Call.StaticCallee(); g != nil && ssax.InModule(g) {
				for _, gb := range g.Blocks {
					for _, gi := range gb.Instrs {
						if ac, ok := gi.(*ssa.Call); ok {
							if bi, ok := ac.Call.Value.(*ssa.Builtin); ok && bi.Name() == "append" {
								for _, a := range ac.Call.Args[1:] {
									add(filterOf(a, depth+1))
									if sl, ok := a.(*ssa.Slice); ok {
										if arr, ok := sl.X.(*ssa.Alloc); ok {
											for _, r := range *arr.Referrers() {
												if ia, ok := r.(*ssa.IndexAddr); ok {
													for _, rr := range *ia.Referrers() {
														if st, ok := rr.(*ssa.Store); ok {
															add(filterOf(st.Val, depth+1))
														}
													}
												}
											}
										}
									}
								}
							}
						}
						if st, ok := gi.(*ssa.Store); ok {
							if _, isIdx := st.Addr.(*ssa.IndexAddr); isIdx {
								add(filterOf(st.Val, depth+1))
							}
						}
					}
				}
			}
		case *ssa.Extract:
			add(filterOf(x.Tuple, depth+1))
		case *ssa.Next:
			add(filterOf(x.Iter, depth+1))
		case *ssa.Range:
			add(filterOf(x.X, depth+1))
		}
		return out
	}
	got := map[string]bool{}
	seen := map[*ssa.Function]bool{}
	var visit func(f *ssa.Function, depth int)
	visit = func(f *ssa.Function, depth int) {
		if seen[f] || depth > 3 {
			return
		}
		seen[f] = true
		for _, b := range f.Blocks {
			for _, in := range b.Instrs {
				call, ok := in.(*ssa.Call)
				if !ok {
					continue
				}
				g := call.Call.StaticCallee()
				if g == nil && call.Call.IsInvoke() && call.Call.Method.Name() == "Validate" {
					// "validate whatever block is present" through an interface: every block it can be
					for _, h := range w.Callees(call, true) {
						// pointer-receiver wrappers of value-receiver methods belong to no package
						if h.Name() == "Validate" && (load.PkgPath(h) == load.PkgPath(root) || h.Synthetic != "") {
							visit(h, depth)
						}
					}
					continue
				}
				if g == nil || !ssax.InModule(g) {
					continue
				}
				if load.FnKey(g) == "(models.Query).Validate" && len(call.Call.Args) > 0 {
					for k := range filterOf(call.Call.Args[0], 0) {
						got[k] = true
					}
				}
				if load.PkgPath(g) == load.PkgPath(root) || f.Synthetic != "" && g.Name() == "Validate" {
					visit(g, depth+1)
				}
			}
		}
	}
	visit(root, 0)
	var names []string
	for k := range want {
		names = append(names, k)
	}
	sort.Strings(names)
	for _, k := range names {
		key := "filter-validated:" + k
		if got[k] {
			c.Add("VALID", key, core.OK, w.Position(root.Pos()), "", props...)
		} else {
			c.Add("VALID", key, core.Violation, w.Position(root.Pos()), "the pre-filter of "+k+" is a query of its own but is not validated on the way through Query.Validate: unknown operators, missing limits and malformed ids in it reach the index code (a missing limit makes the flat search panic outside the recovery middleware)", props...)
		}
	}
}

// capturedCell: the cell of the enclosing function a free variable is bound to
func capturedCell(fv *ssa.FreeVar) *ssa.Alloc {
	fn := fv.Parent()
	if fn == nil || fn.Parent() == nil {
		return nil
	}
	for i, q := range fn.FreeVars {
		if q != fv {
			continue
		}
		for _, b := range fn.Parent().Blocks {
			for _, in := range b.Instrs {
				if mc, ok := in.(*ssa.MakeClosure); ok && mc.Fn == ssa.Value(fn) && i < len(mc.Bindings) {
					al, _ := mc.Bindings[i].(*ssa.Alloc)
					return al
				}
			}
		}
	}
	return nil
}

// lastStraightStore: every store into the cell sits in one basic block of the function that
// owns it (a value built step by step in straight-line code). The store in force at the load
// `at` (a load in that block), or the last one when at is nil (what a closure made afterwards
// sees). nil when the stores are spread over branches or closures.
func lastStraightStore(al *ssa.Alloc, at *ssa.UnOp) *ssa.Store {
	var blk *ssa.BasicBlock
	var stores []*ssa.Store
	for _, r := range *al.Referrers() {
		switch x := r.(type) {
		case *ssa.Store:
			if x.Addr != ssa.Value(al) {
				return nil // the address itself is stored somewhere
			}
			if blk == nil {
				blk = x.Block()
			} else if blk != x.Block() {
				return nil
			}
			stores = append(stores, x)
		case *ssa.MakeClosure:
			// a closure that captures the cell must not assign to it
			fn := x.Fn.(*ssa.Function)
			for i, b := range x.Bindings {
				if b != ssa.Value(al) {
					continue
				}
				for _, rr := range *fn.FreeVars[i].Referrers() {
					if st, ok := rr.(*ssa.Store); ok && st.Addr == ssa.Value(fn.FreeVars[i]) {
						return nil
					}
				}
			}
		}
	}
	if blk == nil {
		return nil
	}
	var last *ssa.Store
	for _, in := range blk.Instrs {
		if at != nil && in == ssa.Instruction(at) {
			return last
		}
		if st, ok := in.(*ssa.Store); ok && st.Addr == ssa.Value(al) {
			last = st
		}
	}
	if at != nil && at.Block() != blk && !blk.Dominates(at.Block()) {
		return nil
	}
	return last
}

// queryBlockTable: the table form of "validate every block that is present". A literal array of
// rows {…, present: q.X != nil, options: q.X} is ranged over as a whole; for each row the loop
// calls Validate on the row's options behind the row's present flag and is left early only with an
// error. Returns, per payload field that has such a row, the loop header (every path to a
// successful return has to go through it).
func queryBlockTable(f *ssa.Function) map[string][]*ssa.BasicBlock {
	out := map[string][]*ssa.BasicBlock{}
	// rows: a literal struct whose bool field is "payload != nil" and whose interface field is that payload
	type row struct {
		table           *ssa.Alloc
		boolIdx, ifcIdx int
		name            string
	}
	var rows []row
	for _, b := range f.Blocks {
		for _, in := range b.Instrs {
			st, ok := in.(*ssa.Store)
			if !ok {
				continue
			}
			ia, ok := st.Addr.(*ssa.IndexAddr)
			if !ok {
				continue
			}
			table, ok := ia.X.(*ssa.Alloc)
			if !ok {
				continue
			}
			ld, ok := st.Val.(*ssa.UnOp)
			if !ok || ld.Op != token.MUL {
				continue
			}
			lit, ok := ld.X.(*ssa.Alloc)
			if !ok || ssax.StructOf(lit.Type()) == nil {
				continue
			}
			r := row{table: table, boolIdx: -1, ifcIdx: -1}
			var stB, stI *types.Struct
			fB, fI := -1, -2
			for _, ref := range *lit.Referrers() {
				fa, ok := ref.(*ssa.FieldAddr)
				if !ok {
					continue
				}
				for _, rr := range *fa.Referrers() {
					fst, ok := rr.(*ssa.Store)
					if !ok || fst.Addr != ssa.Value(fa) {
						continue
					}
					switch v := fst.Val.(type) {
					case *ssa.BinOp:
						if v.Op == token.NEQ && (ssax.IsNilConst(v.X) || ssax.IsNilConst(v.Y)) {
							other := v.X
							if ssax.IsNilConst(v.X) {
								other = v.Y
							}
							if _, s2, i2, ok := payloadLoad(other); ok {
								r.boolIdx, stB, fB = fa.Field, s2, i2
							}
						}
					case *ssa.MakeInterface:
						if _, s2, i2, ok := payloadLoad(v.X); ok {
							r.ifcIdx, stI, fI = fa.Field, s2, i2
						}
					}
				}
			}
			if r.boolIdx >= 0 && r.ifcIdx >= 0 && stB == stI && fB == fI {
				r.name = stB.Field(fB).Name()
				rows = append(rows, r)
			}
		}
	}
	if len(rows) == 0 {
		return out
	}
	// the loop: an invoke of Validate on element.options behind element.present, element ranging over the whole table
	for _, b := range f.Blocks {
		for _, in := range b.Instrs {
			call, ok := in.(*ssa.Call)
			if !ok || !call.Call.IsInvoke() || call.Call.Method.Name() != "Validate" {
				continue
			}
			elem, ifcIdx, ok := rowFieldRead(call.Call.Value)
			if !ok {
				continue
			}
			table, hdr := rangedTable(elem)
			if table == nil || hdr == nil {
				continue
			}
			// guarded by the element's present flag
			guard := -1
			for _, gb := range f.Blocks {
				ifi, ok := gb.Instrs[len(gb.Instrs)-1].(*ssa.If)
				if !ok {
					continue
				}
				cond, neg := ifi.Cond, false
				if u, ok := cond.(*ssa.UnOp); ok && u.Op == token.NOT {
					cond, neg = u.X, true
				}
				e2, bi, ok := rowFieldRead(cond)
				if !ok || e2 != elem {
					continue
				}
				succ := 0
				if neg {
					succ = 1
				}
				if ssax.OnlyViaEdge(gb, succ, b) {
					guard = bi
				}
			}
			if guard < 0 {
				continue
			}
			// the loop is left early only with an error
			inLoopSet := map[*ssa.BasicBlock]bool{}
			for _, lb := range f.Blocks {
				if lb != hdr && hdr.Dominates(lb) && ssax.Reaches(lb, hdr) {
					inLoopSet[lb] = true
				}
			}
			early := false
			for lb := range inLoopSet {
				for _, s := range lb.Succs {
					if s == hdr || inLoopSet[s] {
						continue
					}
					ret, isRet := s.Instrs[len(s.Instrs)-1].(*ssa.Return)
					if !isRet || len(ret.Results) == 0 || !nonNilError(ret.Results[len(ret.Results)-1], s) {
						early = true
					}
				}
			}
			if early {
				continue
			}
			for _, r := range rows {
				if r.table == table && r.boolIdx == guard && r.ifcIdx == ifcIdx {
					out[r.name] = append(out[r.name], hdr)
				}
			}
		}
	}
	return out
}

// rowFieldRead: v reads field #idx of a table element (the element's copy in a local, or the
// element in place); the element's identity is the local or the IndexAddr
func rowFieldRead(v ssa.Value) (elem ssa.Value, idx int, ok bool) {
	switch x := v.(type) {
	case *ssa.UnOp:
		if x.Op != token.MUL {
			return nil, 0, false
		}
		if fa, isFA := x.X.(*ssa.FieldAddr); isFA {
			return fa.X, fa.Field, true
		}
	case *ssa.Field:
		return x.X, x.Field, true
	}
	return nil, 0, false
}

// rangedTable: elem is the loop variable of a range over a whole literal array (the local copy of
// table[i], the loaded element, or &table[i]); the array and the loop header
func rangedTable(elem ssa.Value) (*ssa.Alloc, *ssa.BasicBlock) {
	var ia *ssa.IndexAddr
	switch x := elem.(type) {
	case *ssa.IndexAddr:
		ia = x
	case *ssa.UnOp:
		ia, _ = x.X.(*ssa.IndexAddr)
	case *ssa.Alloc:
		// check := table[i]
		if sv := ssax.SingleStore(x); sv != nil {
			if ld, ok := sv.(*ssa.UnOp); ok && ld.Op == token.MUL {
				ia, _ = ld.X.(*ssa.IndexAddr)
			}
		}
	}
	if ia == nil {
		return nil, nil
	}
	base := ia.X
	if sl, ok := base.(*ssa.Slice); ok {
		if sl.Low != nil || sl.High != nil {
			return nil, nil
		}
		base = sl.X
	}
	table, ok := base.(*ssa.Alloc)
	if !ok {
		return nil, nil
	}
	// the index: the range counter (phi of -1 and itself+1, or 0 and itself+1)
	var phi *ssa.Phi
	switch x := ia.Index.(type) {
	case *ssa.Phi:
		phi = x
	case *ssa.BinOp:
		phi, _ = x.X.(*ssa.Phi)
	}
	if phi == nil {
		return nil, nil
	}
	return table, phi.Block()
}

// collectionLiteralsScoped: a models.Collection built by hand (a literal that names its Id) also
// names its UserId. The shard directory and the record key are <user>/<collection>; a literal
// without the user resolves to userCollections/<collection id>/…, which is the directory of the
// tenant whose user id equals that collection id.
func collectionLiteralsScoped(w *load.World, c *core.Collector) {
	props := []string{"C16"}
	n := 0
	perFn := map[*ssa.Function]int{}
	for _, f := range w.Fns {
		if !load.InMod(f) || f.Synthetic != "" {
			continue
		}
		pkg := load.PkgPath(f)
		if !(strings.HasSuffix(pkg, "/cluster") || strings.Contains(pkg, "/httpapi")) {
			continue
		}
		for _, b := range f.Blocks {
			for _, in := range b.Instrs {
				al, ok := in.(*ssa.Alloc)
				if !ok || al.Comment != "complit" || ssax.TypeName(al.Type()) != "models.Collection" {
					continue
				}
				set := map[string]bool{}
				for _, r := range *al.Referrers() {
					if fa, ok := r.(*ssa.FieldAddr); ok {
						for _, rr := range *fa.Referrers() {
							if st, ok := rr.(*ssa.Store); ok && st.Addr == ssa.Value(fa) {
								set[ssax.StructOf(al.Type()).Field(fa.Field).Name()] = true
							}
						}
					}
				}
				if !set["Id"] {
					continue
				}
				n++
				perFn[f]++
				key := fmt.Sprintf("collection-literal:%s#%d", load.FnKey(f), perFn[f])
				if set["UserId"] {
					c.Add("TENANT", key, core.OK, w.At(in), "", props...)
				} else {
					c.Add("TENANT", key, core.Violation, w.At(in), "a collection is built with its id and without its user id: paths and keys derived from it are userCollections/<collection id>/… — another tenant's directory when that tenant's user id equals the collection id (deleting this collection's shards removes all of theirs)", props...)
				}
			}
		}
	}
	if n < 1 {
		c.Add("TENANT", "collection-literal:none", core.OK, "", "no hand-built collection in the cluster and http packages", props...)
	}
}
