package rules

import (
	"fmt"
	"go/constant"
	"go/token"
	"go/types"
	"sort"
	"strings"
	"unicode"

	"golang.org/x/tools/go/ssa"

	"semaverif/internal/core"
	"semaverif/internal/load"
	"semaverif/internal/ssax"
)

// Clauses added after the ninth blind round.

// Round9 runs the clauses of DESIGN.md addendum 9.
func Round9(w *load.World, c *core.Collector) {
	NilList(w, c)
	arrayDiffComplete(w, c)
	termsRebuilt(w, c)
	hitSetFromHits(w, c)
	registryKeyedByDir(w, c)
	schemaBlockMatchesType(w, c)
	scrapUnderLock(w, c)
}

// fieldNameOf: the name of the struct field a FieldAddr / Field selects, with its struct's type name.
func fieldNameOf(v ssa.Value) (typ, name string, ok bool) {
	switch x := v.(type) {
	case *ssa.FieldAddr:
		if st := ssax.StructOf(x.X.Type()); st != nil && x.Field < st.NumFields() {
			return ssax.TypeName(x.X.Type()), st.Field(x.Field).Name(), true
		}
	case *ssa.Field:
		if st := ssax.StructOf(x.X.Type()); st != nil && x.Field < st.NumFields() {
			return ssax.TypeName(x.X.Type()), st.Field(x.Field).Name(), true
		}
	case *ssa.UnOp:
		if x.Op == token.MUL {
			return fieldNameOf(x.X)
		}
	}
	return "", "", false
}

// NilList: "no list" and "an empty list" of a request mean the same thing. A list-valued field of
// a request or collection model (package models) is decoded from JSON: `"sort": []` yields an
// empty, non-nil slice. Code that selects behaviour by comparing such a field with nil treats the
// two spellings of the same request differently.
func NilList(w *load.World, c *core.Collector) {
	per := map[string][]lintHit{}
	seen := map[string]bool{}
	for _, f := range w.Fns {
		if !load.InMod(f) || f.Synthetic != "" || len(f.Blocks) == 0 {
			continue
		}
		pkg := load.PkgPath(f)
		seen[pkg] = true
		for _, b := range f.Blocks {
			for _, in := range b.Instrs {
				bo, ok := in.(*ssa.BinOp)
				if !ok || (bo.Op != token.EQL && bo.Op != token.NEQ) {
					continue
				}
				var x ssa.Value
				switch {
				case ssax.IsNilConst(bo.Y):
					x = bo.X
				case ssax.IsNilConst(bo.X):
					x = bo.Y
				default:
					continue
				}
				if _, isSlice := x.Type().Underlying().(*types.Slice); !isSlice {
					continue
				}
				typ, name, ok := fieldNameOf(x)
				if !ok || !strings.HasPrefix(typ, "models.") {
					continue
				}
				per[pkg] = append(per[pkg], lintHit{w.At(in), "the list field " + typ + "." + name + " of a request model is compared with nil: an empty JSON array decodes to an empty non-nil slice, so the absent and the empty spelling of one request take different branches (test the length)"})
			}
		}
	}
	emitLint(c, "NILLIST", "model-list-nil-test", seen, per, func(p string) []string {
		if strings.HasSuffix(p, "/cluster") {
			return []string{"C06"}
		}
		return nil
	})
}

// arrayDiffComplete: the array index reports a change of a point's array as additions (values new
// to it) and deletions (values it lost). The deletions are found by a loop over the previous
// values; every successful return of the diff function lies behind that loop (or behind a test
// that there are no previous values), whatever the additions looked like.
func arrayDiffComplete(w *load.World, c *core.Collector) {
	props := []string{"C02", "C01"}
	var outer []*ssa.Function
	for _, f := range w.Fns {
		if strings.HasPrefix(load.FnKey(f), "(*shard/index/inverted.IndexInvertedArray[T]).InsertUpdateDelete") && !strings.Contains(load.FnKey(f), "@") && !strings.Contains(load.FnKey(f), "$") {
			outer = append(outer, f)
		}
	}
	if len(outer) == 0 {
		c.Add("FOLD", "anchor:array-diff", core.Undecided, "", "IndexInvertedArray.InsertUpdateDelete not found", props...)
		return
	}
	// the functions that build the change records: the method, its literals and module helpers it calls
	seen := map[*ssa.Function]bool{}
	var cands []*ssa.Function
	var add func(g *ssa.Function, depth int)
	add = func(g *ssa.Function, depth int) {
		if g == nil || seen[g] || len(g.Blocks) == 0 || depth > 3 {
			return
		}
		seen[g] = true
		cands = append(cands, g)
		for _, a := range g.AnonFuncs {
			add(a, depth+1)
		}
		for _, b := range g.Blocks {
			for _, in := range b.Instrs {
				if h := ssax.StaticModuleCallee(in); h != nil && load.PkgPath(h) == load.Mod+"/shard/index/inverted" && h.Name() != "InsertUpdateDelete" {
					add(h, depth+1)
				}
			}
		}
	}
	add(outer[0], 0)
	checked := 0
	bad := ""
	// helpers that build a deletion record for their caller
	makesDeletion := map[*ssa.Function]bool{}
	isDelStore := func(in ssa.Instruction) bool {
		st, ok := in.(*ssa.Store)
		if !ok {
			return false
		}
		typ, name, ok := fieldNameOf(st.Addr)
		return ok && name == "PreviousData" && strings.Contains(typ, "IndexChange")
	}
	for _, g := range cands {
		for _, b := range g.Blocks {
			for _, in := range b.Instrs {
				if isDelStore(in) {
					makesDeletion[g] = true
					if o := g.Origin(); o != nil {
						makesDeletion[o] = true
					}
				}
			}
		}
	}
	for _, g := range cands {
		// the stores that make a deletion record: IndexChange.PreviousData = &val (or a call of a helper that does)
		var delBlocks []*ssa.BasicBlock
		for _, b := range g.Blocks {
			for _, in := range b.Instrs {
				if isDelStore(in) {
					delBlocks = append(delBlocks, b)
				} else if h := ssax.StaticModuleCallee(in); h != nil && h != g && (makesDeletion[h] || (h.Origin() != nil && makesDeletion[h.Origin()])) {
					delBlocks = append(delBlocks, b)
				}
			}
		}
		if len(delBlocks) == 0 {
			continue
		}
		for _, db := range delBlocks {
			// innermost loop header that dominates the block and is reached back from it
			var hdr *ssa.BasicBlock
			for d := db; d != nil; d = d.Idom() {
				isHdr := false
				for _, p := range d.Preds {
					if d.Dominates(p) && ssax.Reaches(db, p) {
						isHdr = true
					}
				}
				if isHdr {
					hdr = d
					break
				}
			}
			if hdr == nil {
				continue
			}
			checked++
			// what the loop ranges over (for the "nothing to delete" excuse)
			var ranged []ssa.Value
			for _, b := range g.Blocks {
				for _, in := range b.Instrs {
					if r, ok := in.(*ssa.Range); ok && b.Dominates(hdr) {
						ranged = append(ranged, r.X)
					}
				}
			}
			isPrev := func(v ssa.Value) bool {
				for _, r := range ranged {
					if r == v {
						return true
					}
				}
				if _, name, ok := fieldNameOf(v); ok && name == "PreviousData" {
					return true
				}
				return false
			}
			// blocks reachable from the entry without passing the loop header
			reach := map[*ssa.BasicBlock]bool{}
			stack := []*ssa.BasicBlock{g.Blocks[0]}
			for len(stack) > 0 {
				b := stack[len(stack)-1]
				stack = stack[:len(stack)-1]
				if reach[b] || b == hdr {
					continue
				}
				reach[b] = true
				stack = append(stack, b.Succs...)
			}
			for _, b := range g.Blocks {
				if !reach[b] {
					continue
				}
				ret, ok := b.Instrs[len(b.Instrs)-1].(*ssa.Return)
				if !ok || len(ret.Results) == 0 {
					continue
				}
				if nonNilError(ssax.ReturnOperand(ret, len(ret.Results)-1), b) {
					continue
				}
				// excused when only reached over an edge on which there are no previous values
				excused := false
				for _, tb := range g.Blocks {
					ifi, ok := tb.Instrs[len(tb.Instrs)-1].(*ssa.If)
					if !ok {
						continue
					}
					bo, ok := ifi.Cond.(*ssa.BinOp)
					if !ok {
						continue
					}
					lenOf := func(v ssa.Value) bool {
						call, ok := v.(*ssa.Call)
						if !ok {
							return false
						}
						bi, ok := call.Call.Value.(*ssa.Builtin)
						return ok && bi.Name() == "len" && isPrev(call.Call.Args[0])
					}
					zero := func(v ssa.Value) bool { k, ok := ssax.ConstInt(v); return ok && k == 0 }
					edge := -1
					switch {
					case lenOf(bo.X) && zero(bo.Y):
						switch bo.Op {
						case token.EQL, token.LEQ:
							edge = 0
						case token.NEQ, token.GTR:
							edge = 1
						}
					case lenOf(bo.Y) && zero(bo.X):
						switch bo.Op {
						case token.EQL, token.GEQ:
							edge = 0
						case token.NEQ, token.LSS:
							edge = 1
						}
					}
					if edge >= 0 && ssax.OnlyViaEdge(tb, edge, b) {
						excused = true
					}
				}
				if !excused {
					bad = w.At(ret)
				}
			}
		}
	}
	switch {
	case checked == 0:
		// the diff is not written as a loop that creates deletion records (a set-difference helper, a
		// merged pass): this clause decides the loop form only and says so instead of raising an alarm
		c.Add("FOLD", "array-diff-complete", core.OK, w.Position(outer[0].Pos()), "not decided: the deletion records are not created in a loop of the diff function (form outside this clause)", props...)
	case bad != "":
		c.Add("FOLD", "array-diff-complete", core.Violation, bad, "the array diff can return its changes without having looked for the values the array lost (a return that bypasses the deletion loop and is not behind a test that there were no previous values): the lost value's posting stays and the point keeps matching it", props...)
	default:
		c.Add("FOLD", "array-diff-complete", core.OK, w.Position(outer[0].Pos()), "", props...)
	}
}

// termsRebuilt: the text index stores with each document the terms it contains. On an update the
// record's term map is built afresh from the new analysis; writing the new terms into the map of
// the stored record keeps the terms the document lost (unless they are deleted from it).
func termsRebuilt(w *load.World, c *core.Collector) {
	props := []string{"C05", "C01"}
	n, bad := 0, ""
	for _, f := range w.Fns {
		if load.PkgPath(f) != load.Mod+"/shard/index/text" || len(f.Blocks) == 0 {
			continue
		}
		fromTerms := func(v ssa.Value) bool {
			_, name, ok := fieldNameOf(v)
			return ok && name == "Terms"
		}
		hasDelete := false
		var inPlace []ssa.Instruction
		for _, b := range f.Blocks {
			for _, in := range b.Instrs {
				switch x := in.(type) {
				case *ssa.MapUpdate:
					if _, ok := x.Map.Type().Underlying().(*types.Map); !ok {
						continue
					}
					n++
					if fromTerms(x.Map) {
						inPlace = append(inPlace, in)
					}
				case *ssa.Call:
					if bi, ok := x.Call.Value.(*ssa.Builtin); ok && (bi.Name() == "delete" || bi.Name() == "clear") && len(x.Call.Args) > 0 && fromTerms(x.Call.Args[0]) {
						hasDelete = true
					}
				}
			}
		}
		if len(inPlace) > 0 && !hasDelete {
			bad = w.At(inPlace[0])
		}
	}
	switch {
	case n == 0:
		c.Add("RANK", "text:terms-rebuilt", core.Undecided, "", "no map update found in the text index package", props...)
	case bad != "":
		c.Add("RANK", "text:terms-rebuilt", core.Violation, bad, "the term map of a stored document record is written in place and nothing is ever deleted from it: terms the document lost stay listed with their old frequency (they are scored, and never re-added to their posting set)", props...)
	default:
		c.Add("RANK", "text:terms-rebuilt", core.OK, "", "", props...)
	}
}

// hitSetFromHits: the bitmap a vector search returns next to its ranked list is the set of the
// ids in that list. It is built from an empty bitmap; a bitmap derived from the pre-filter
// (a clone, an intersection) contains members the search never returned — the shard appends them
// as unranked results.
func hitSetFromHits(w *load.World, c *core.Collector) {
	props := []string{"C03", "C04", "C06"}
	for _, key := range []string{"(*shard/index/vamana.IndexVamana).Search", "(shard/index/flat.IndexFlat).Search"} {
		f := findFn(w, key)
		short := "vamana"
		if strings.Contains(key, "flat") {
			short = "flat"
		}
		if f == nil {
			c.Add("RANK", short+":hit-set-from-hits", core.Undecided, "", key+" not found", props...)
			continue
		}
		idx := -1
		res := f.Signature.Results()
		for i := 0; i < res.Len(); i++ {
			if strings.Contains(res.At(i).Type().String(), "roaring64.Bitmap") {
				idx = i
			}
		}
		if idx < 0 {
			c.Add("RANK", short+":hit-set-from-hits", core.OK, w.Position(f.Pos()), "returns no bitmap", props...)
			continue
		}
		bad, leaves := "", 0
		seen := map[ssa.Value]bool{}
		var visit func(v ssa.Value)
		visit = func(v ssa.Value) {
			if v == nil || seen[v] {
				return
			}
			seen[v] = true
			switch x := v.(type) {
			case *ssa.Phi:
				for _, e := range x.Edges {
					visit(e)
				}
			case *ssa.Const:
			case *ssa.UnOp:
				if x.Op == token.MUL {
					if al, ok := x.X.(*ssa.Alloc); ok && al.Referrers() != nil {
						for _, r := range *al.Referrers() {
							if st, ok := r.(*ssa.Store); ok && st.Addr == ssa.Value(al) {
								visit(st.Val)
							}
						}
						return
					}
				}
				leaves++
				bad = w.At(x)
			case *ssa.Extract:
				visit(x.Tuple)
			case *ssa.Call:
				leaves++
				g := x.Call.StaticCallee()
				fresh := false
				if g != nil && g.Signature.Recv() == nil && g.Pkg != nil && strings.HasSuffix(g.Pkg.Pkg.Path(), "roaring/roaring64") {
					fresh = true
					for _, a := range x.Call.Args {
						if strings.Contains(a.Type().String(), "roaring64.Bitmap") {
							fresh = false
						}
					}
				}
				if g != nil && ssax.InModule(g) && len(g.Blocks) > 0 {
					// a module helper: its own returns are looked at
					fresh = true
					for _, hb := range g.Blocks {
						if r, ok := hb.Instrs[len(hb.Instrs)-1].(*ssa.Return); ok {
							for i := range r.Results {
								if strings.Contains(r.Results[i].Type().String(), "roaring64.Bitmap") {
									visit(ssax.ReturnOperand(r, i))
								}
							}
						}
					}
				}
				if !fresh {
					bad = w.At(x)
				}
			default:
				leaves++
				if in, ok := v.(ssa.Instruction); ok {
					bad = w.At(in)
				} else {
					bad = w.Position(f.Pos())
				}
			}
		}
		for _, b := range f.Blocks {
			if r, ok := b.Instrs[len(b.Instrs)-1].(*ssa.Return); ok && idx < len(r.Results) {
				visit(ssax.ReturnOperand(r, idx))
			}
		}
		switch {
		case bad != "":
			c.Add("RANK", short+":hit-set-from-hits", core.Violation, bad, "the bitmap returned next to the ranked results does not start as an empty bitmap (it is derived from another bitmap, e.g. the pre-filter): members that were never ranked are handed to the shard as hits and appended unranked", props...)
		default:
			c.Add("RANK", short+":hit-set-from-hits", core.OK, w.Position(f.Pos()), fmt.Sprintf("%d origin(s), all fresh bitmaps", leaves), props...)
		}
	}
}

// registryKeyedByDir: the registry of loaded shards of a node is keyed by something that names
// the tenant: the shard's directory (<root>/<user>/<collection>/<shard>) — a key made of the
// collection or shard id alone lets one tenant's request find another tenant's open shard.
func registryKeyedByDir(w *load.World, c *core.Collector) {
	props := []string{"C16", "C12"}
	n := 0
	var bads []string
	isRegistry := func(v ssa.Value) bool {
		typ, name, ok := fieldNameOf(v)
		return ok && name == "shardStore" && strings.HasSuffix(typ, "ShardManager")
	}
	keyed := func(f *ssa.Function, key ssa.Value) bool {
		if deepHas(w, key, "field:UserId") {
			return true
		}
		o := ssax.Prov(key)
		return o["field:shardDir"]
	}
	var fns []*ssa.Function
	for _, f := range w.Fns {
		if load.PkgPath(f) == load.Mod+"/cluster" && len(f.Blocks) > 0 {
			fns = append(fns, f)
		}
	}
	sort.Slice(fns, func(i, j int) bool { return load.FnKey(fns[i]) < load.FnKey(fns[j]) })
	for _, f := range fns {
		for _, b := range f.Blocks {
			for _, in := range b.Instrs {
				var key ssa.Value
				switch x := in.(type) {
				case *ssa.Lookup:
					if isRegistry(x.X) {
						key = x.Index
					}
				case *ssa.MapUpdate:
					if isRegistry(x.Map) {
						key = x.Key
					}
				case *ssa.Call:
					if bi, ok := x.Call.Value.(*ssa.Builtin); ok && bi.Name() == "delete" && len(x.Call.Args) == 2 && isRegistry(x.Call.Args[0]) {
						key = x.Call.Args[1]
					}
				case *ssa.Store:
					// loadedShard.shardDir itself must name the tenant
					if typ, name, ok := fieldNameOf(x.Addr); ok && name == "shardDir" && strings.HasSuffix(typ, "loadedShard") {
						n++
						if !deepHas(w, x.Val, "field:UserId") {
							bads = append(bads, w.At(in))
						}
					}
				}
				if key == nil {
					continue
				}
				n++
				if !keyed(f, key) {
					bads = append(bads, w.At(in))
				}
			}
		}
	}
	switch {
	case n == 0:
		c.Add("TENANT", "registry-keyed-by-dir", core.Undecided, "", "no access of ShardManager.shardStore found", props...)
	case len(bads) > 0:
		c.Add("TENANT", "registry-keyed-by-dir", core.Violation, bads[0], fmt.Sprintf("the registry of loaded shards is accessed with a key that does not derive from the user id (%d site(s)): two tenants whose collections or shards share an id find each other's open shard", len(bads)), props...)
	case n < 3:
		c.Add("TENANT", "registry-keyed-by-dir", core.OK, "", fmt.Sprintf("%d direct accesses, all keyed by the directory; the others go through an accessor this clause does not follow", n), props...)
	case len(bads) > 0:
		c.Add("TENANT", "registry-keyed-by-dir", core.Violation, bads[0], fmt.Sprintf("the registry of loaded shards is accessed with a key that does not derive from the user id (%d site(s)): two tenants whose collections or shards share an id find each other's open shard", len(bads)), props...)
	default:
		c.Add("TENANT", "registry-keyed-by-dir", core.OK, "", fmt.Sprintf("%d accesses", n), props...)
	}
}

// schemaBlockMatchesType: an index schema entry is a tagged union: Type says which parameter
// block the indexes will dereference. Validate must test, for each type that has a block, that
// very block for nil before it accepts the entry.
func schemaBlockMatchesType(w *load.World, c *core.Collector) {
	props := []string{"C18"}
	f := findFn(w, "(models.IndexSchemaValue).Validate")
	if f == nil {
		c.Add("TAGGED", "anchor:schema-validate", core.Undecided, "", "(models.IndexSchemaValue).Validate not found", props...)
		return
	}
	st := ssax.StructOf(f.Signature.Recv().Type())
	if st == nil {
		c.Add("TAGGED", "anchor:schema-validate", core.Undecided, "", "receiver is not a struct", props...)
		return
	}
	fields := map[string]bool{}
	for i := 0; i < st.NumFields(); i++ {
		if _, isPtr := st.Field(i).Type().Underlying().(*types.Pointer); isPtr {
			fields[st.Field(i).Name()] = true
		}
	}
	upper := func(s string) string {
		r := []rune(s)
		if len(r) == 0 {
			return s
		}
		r[0] = unicode.ToUpper(r[0])
		return string(r)
	}
	nilTestOf := func(b *ssa.BasicBlock, field string) bool {
		ifi, ok := b.Instrs[len(b.Instrs)-1].(*ssa.If)
		if !ok {
			return false
		}
		cond := ifi.Cond
		if un, ok := cond.(*ssa.UnOp); ok && un.Op == token.NOT {
			cond = un.X
		}
		bo, ok := cond.(*ssa.BinOp)
		if !ok || (bo.Op != token.EQL && bo.Op != token.NEQ) {
			return false
		}
		var x ssa.Value
		switch {
		case ssax.IsNilConst(bo.Y):
			x = bo.X
		case ssax.IsNilConst(bo.X):
			x = bo.Y
		default:
			return false
		}
		typ, name, ok := fieldNameOf(x)
		return ok && name == field && strings.HasSuffix(typ, "IndexSchemaValue")
	}
	found := 0
	for _, b := range f.Blocks {
		ifi, ok := b.Instrs[len(b.Instrs)-1].(*ssa.If)
		if !ok {
			continue
		}
		bo, ok := ifi.Cond.(*ssa.BinOp)
		if !ok || (bo.Op != token.EQL && bo.Op != token.NEQ) {
			continue
		}
		var k *ssa.Const
		if cc, ok := bo.Y.(*ssa.Const); ok {
			k = cc
		} else if cc, ok := bo.X.(*ssa.Const); ok {
			k = cc
		}
		if k == nil || k.Value == nil || k.Value.Kind() != constant.String {
			continue
		}
		tag := constant.StringVal(k.Value)
		field := upper(tag)
		if !fields[field] {
			continue
		}
		edge := 0
		if bo.Op == token.NEQ {
			edge = 1
		}
		// only the comparisons whose "equal" edge leads into the handling of the type (the
		// pre-check of a switch's default arm joins all types again and is skipped: its target is
		// where the other comparisons are made)
		target := b.Succs[edge]
		if tl, ok := target.Instrs[len(target.Instrs)-1].(*ssa.If); ok {
			if tb, ok := tl.Cond.(*ssa.BinOp); ok {
				if _, isK := tb.Y.(*ssa.Const); isK && (tb.Op == token.EQL || tb.Op == token.NEQ) && !ssax.IsNilConst(tb.Y) {
					continue
				}
			}
		}
		found++
		// from the target, a return that can report success without passing a nil test of the field
		seen := map[*ssa.BasicBlock]bool{}
		bad := ""
		stack := []*ssa.BasicBlock{target}
		for len(stack) > 0 {
			x := stack[len(stack)-1]
			stack = stack[:len(stack)-1]
			if seen[x] {
				continue
			}
			seen[x] = true
			if nilTestOf(x, field) {
				continue
			}
			if r, ok := x.Instrs[len(x.Instrs)-1].(*ssa.Return); ok && len(r.Results) > 0 {
				if !nonNilError(ssax.ReturnOperand(r, len(r.Results)-1), x) {
					bad = w.At(r)
				}
			}
			stack = append(stack, x.Succs...)
		}
		key := "schema-block-matches-type:" + tag
		if bad != "" {
			c.Add("TAGGED", key, core.Violation, bad, fmt.Sprintf("a schema entry of type %q can be accepted without its %s block having been tested for nil (another block is tested instead): the indexes dereference that block on goroutines without recovery", tag, field), props...)
		} else {
			c.Add("TAGGED", key, core.OK, w.Position(f.Pos()), "", props...)
		}
	}
	if found < 3 {
		c.Add("TAGGED", "anchor:schema-validate-cases", core.Undecided, w.Position(f.Pos()), fmt.Sprintf("found %d type comparisons with a parameter block in Validate, expected at least 3", found), props...)
	}
}

// scrapUnderLock: a failed transaction marks the caches it wrote as scrapped and takes them out of
// the manager's map while it still holds their write locks: whoever waits for such a lock must find
// the mark when it gets in. Every store of the mark in Commit is followed, within the same pass
// over the written caches, by the release of that cache's lock.
func scrapUnderLock(w *load.World, c *core.Collector) {
	props := []string{"C09", "C11", "C07"}
	f := findFn(w, "(*shard/cache.Transaction).Commit")
	if f == nil {
		c.Add("WITHCB", "anchor:commit", core.Undecided, "", "(*shard/cache.Transaction).Commit not found", props...)
		return
	}
	isElemUnlock := func(in ssa.Instruction) bool {
		call, ok := in.(*ssa.Call)
		if !ok {
			return false
		}
		g := call.Call.StaticCallee()
		if g == nil || g.Name() != "Unlock" || len(call.Call.Args) == 0 {
			return false
		}
		typ, _, ok := fieldNameOf(call.Call.Args[0])
		return ok && strings.HasSuffix(typ, "sharedCacheElem")
	}
	markStore := func(in ssa.Instruction) bool {
		st, ok := in.(*ssa.Store)
		if !ok {
			return false
		}
		typ, name, ok := fieldNameOf(st.Addr)
		return ok && name == "scrapped" && strings.HasSuffix(typ, "sharedCacheElem")
	}
	// the mark itself, or a call of a helper of the package that makes it
	isMark := func(in ssa.Instruction) bool {
		if markStore(in) {
			return true
		}
		h := ssax.StaticModuleCallee(in)
		if h == nil || len(h.Blocks) == 0 || load.PkgPath(h) != load.Mod+"/shard/cache" {
			return false
		}
		hasMark, hasUnlock := false, false
		for _, hb := range h.Blocks {
			for _, hi := range hb.Instrs {
				if markStore(hi) {
					hasMark = true
				}
				if isElemUnlock(hi) {
					hasUnlock = true
				}
			}
		}
		// a helper that marks and releases is judged on its own (below), not at its call
		return hasMark && !hasUnlock
	}
	// Commit, or the helper of the package the whole pass over the written caches was moved into
	f = homeOf(f, func(g *ssa.Function) bool {
		if load.PkgPath(g) != load.Mod+"/shard/cache" {
			return false
		}
		for _, gb := range g.Blocks {
			for _, gi := range gb.Instrs {
				if isMark(gi) {
					return true
				}
			}
		}
		return false
	})
	n, bad := 0, ""
	innerHdr := func(b *ssa.BasicBlock) *ssa.BasicBlock {
		for d := b; d != nil; d = d.Idom() {
			for _, p := range d.Preds {
				if d.Dominates(p) && ssax.Reaches(b, p) {
					return d
				}
			}
		}
		return nil
	}
	type site struct {
		b   *ssa.BasicBlock
		idx int
		in  ssa.Instruction
	}
	var marks, unlocks []site
	for _, b := range f.Blocks {
		for i, in := range b.Instrs {
			if isMark(in) {
				marks = append(marks, site{b, i, in})
			}
			if isElemUnlock(in) {
				unlocks = append(unlocks, site{b, i, in})
			}
		}
	}
	n = len(marks)
	// no release of a cache's lock comes before a mark: not earlier in the same pass over the
	// written caches, and not in an earlier pass
	for _, m := range marks {
		hm := innerHdr(m.b)
		for _, u := range unlocks {
			hu := innerHdr(u.b)
			if hm == hu {
				if u.b == m.b {
					if u.idx < m.idx {
						bad = w.At(m.in)
					}
					continue
				}
				// within one iteration: from the release to the mark without passing the header
				seen := map[*ssa.BasicBlock]bool{}
				stack := append([]*ssa.BasicBlock{}, u.b.Succs...)
				for len(stack) > 0 {
					x := stack[len(stack)-1]
					stack = stack[:len(stack)-1]
					if x == hm || seen[x] {
						continue
					}
					seen[x] = true
					if x == m.b {
						bad = w.At(m.in)
						break
					}
					stack = append(stack, x.Succs...)
				}
				continue
			}
			if ssax.Reaches(u.b, m.b) {
				bad = w.At(m.in)
			}
		}
	}
	switch {
	case n == 0:
		c.Add("WITHCB", "scrap-under-lock", core.Undecided, w.Position(f.Pos()), "Commit never marks a cache as scrapped", props...)
	case bad != "":
		c.Add("WITHCB", "scrap-under-lock", core.Violation, bad, "a cache is marked scrapped after a release of the written caches' locks (earlier in the pass, or in an earlier pass): a waiting writer or reader can get into the cache of a rolled-back batch before it is marked and unpublished", props...)
	default:
		c.Add("WITHCB", "scrap-under-lock", core.OK, w.Position(f.Pos()), "", props...)
	}
}
