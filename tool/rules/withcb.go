package rules

import (
	"fmt"
	"go/token"
	"go/types"
	"strings"

	"golang.org/x/tools/go/ssa"

	"semaverif/internal/core"
	"semaverif/internal/load"
	"semaverif/internal/lockset"
	"semaverif/internal/ssax"
)

// ------------------------------------------------------------------- WITHCB
//
// Transaction.With hands a cache to the caller's callback. The cache is either
// a fresh cold one (nobody else can see it) or the shared element found in the
// manager's table. For the shared element two things must hold on every path
// that reaches the callback with it:
//
//	locked   the element's lock is held: taken here (Lock/RLock), obtained by a
//	         successful TryRLock/TryLock, obtained through a helper that returns
//	         holding it, or already write-held by this transaction (the element is
//	         in the transaction's writtenCaches table);
//	tested   its scrapped flag was read, under that lock, and found false — a
//	         transaction that failed marks the element scrapped while holding the
//	         write lock, so whoever gets the lock afterwards must look.
//
// The value handed to the callback is followed backwards through the phi nodes
// of the function; every incoming edge that can carry the shared element has to
// be covered by such an event (all paths from the entry to the edge cross it).
// Deferred releases are what the function uses; an explicit release of an
// element lock that can still reach the callback is reported.

type wcPos struct {
	pred *ssa.BasicBlock // the edge pred -> pred.Succs[succ]; succ < 0: the block itself (at the instruction `at`)
	succ int
	at   ssa.Instruction
}

type wcEvents struct {
	edges  []ssax.Edge       // the event holds after crossing the edge
	instrs []ssa.Instruction // the event holds after the instruction
	blocks map[*ssa.BasicBlock]bool
}

func (e *wcEvents) empty() bool { return len(e.edges) == 0 && len(e.instrs) == 0 }

// covered: every path from the entry to the position crosses an event.
func (e *wcEvents) covered(f *ssa.Function, p wcPos) bool {
	if e.empty() {
		return false
	}
	banned := append([]ssax.Edge{}, e.edges...)
	for _, in := range e.instrs {
		b := in.Block()
		if p.succ < 0 && b == p.pred {
			// same block: the event has to come first
			if p.at != nil && ssax.Precedes(in, p.at) {
				return true
			}
			continue
		}
		for i := range b.Succs {
			banned = append(banned, ssax.Edge{From: b, Succ: i})
		}
	}
	if p.succ >= 0 {
		for _, b := range banned {
			if b.From == p.pred && b.Succ == p.succ {
				return true
			}
		}
	}
	return !reachableWithoutEdges(f, banned, p.pred)
}

func succIndex(pred, succ *ssa.BasicBlock) int {
	for i, s := range pred.Succs {
		if s == succ {
			return i
		}
	}
	return -1
}

func WithCB(w *load.World, ls *lockset.Result, c *core.Collector) {
	props := []string{"C09", "C11"}
	with := findFn(w, "(*shard/cache.Transaction).With")
	if with == nil {
		c.Add("WITHCB", "anchor:With", core.Undecided, "", "Transaction.With not found", props...)
		return
	}
	isCallback := func(in ssa.Instruction) (*ssa.Call, ssa.Value) {
		call, ok := in.(*ssa.Call)
		if !ok || call.Call.IsInvoke() || call.Call.StaticCallee() != nil || len(call.Call.Args) != 1 {
			return nil, nil
		}
		if _, isParam := peelToParam(call.Call.Value).(*ssa.Parameter); !isParam {
			return nil, nil
		}
		// the argument is <elem>.item
		ld, ok := call.Call.Args[0].(*ssa.UnOp)
		if !ok || ld.Op != token.MUL {
			return nil, nil
		}
		fa, ok := ld.X.(*ssa.FieldAddr)
		if !ok || ssax.TypeName(fa.X.Type()) != "cache.sharedCacheElem" {
			return nil, nil
		}
		return call, fa.X
	}
	f := homeOf(with, func(g *ssa.Function) bool {
		for _, b := range g.Blocks {
			for _, in := range b.Instrs {
				if cb, _ := isCallback(in); cb != nil {
					return true
				}
			}
		}
		return false
	})
	type cbSite struct {
		cb   *ssa.Call
		elem ssa.Value
	}
	var sites []cbSite
	for _, b := range f.Blocks {
		for _, in := range b.Instrs {
			if x, e := isCallback(in); x != nil {
				sites = append(sites, cbSite{x, e})
			}
		}
	}
	if len(sites) == 0 {
		c.Add("WITHCB", "anchor:callback", core.Undecided, w.Position(with.Pos()), "the call of the caller's callback with a cache element's item was not found in Transaction.With", props...)
		return
	}
	for si, site := range sites {
		withCBSite(w, ls, c, f, site.cb, site.elem, fmt.Sprintf("#%d", si+1), props)
	}
	// an element that is put into the manager's table is locked by the transaction that puts it there
	// before the manager lock is released: whoever finds it afterwards has to queue behind that lock
	// (an element published unlocked is handed to the next reader while its publisher still writes it)
	nPub := 0
	for _, b := range f.Blocks {
		for _, in := range b.Instrs {
			mu, ok := in.(*ssa.MapUpdate)
			if !ok || ssax.IsNilConst(mu.Value) {
				continue
			}
			if p, _ := ssax.Path(mu.Map); !strings.Contains(p, "sharedCaches") {
				continue
			}
			nPub++
			v := wcCanon(mu.Value)
			isLockOfV := func(x ssa.Instruction) bool {
				call, ok := x.(*ssa.Call)
				if !ok {
					return false
				}
				kind, l, isOp := lockset.AsLockOp(call.Common())
				if !isOp || l.Class != elemLock || (kind != "Lock" && kind != "RLock") {
					return false
				}
				fa, ok := call.Call.Args[0].(*ssa.FieldAddr)
				if !ok {
					return false
				}
				x0 := wcCanon(fa.X)
				if x0 == v {
					return true
				}
				// the published value may be a phi one of whose inputs is the locked element
				if phi, ok := v.(*ssa.Phi); ok {
					for _, e := range phi.Edges {
						if wcCanon(e) == x0 {
							return true
						}
					}
				}
				return false
			}
			isMgrUnlock := func(x ssa.Instruction) bool {
				call, ok := x.(*ssa.Call)
				if !ok {
					return false
				}
				kind, l, isOp := lockset.AsLockOp(call.Common())
				return isOp && kind == "Unlock" && l.Class == "cache.Manager.mu"
			}
			locked := false
			for _, lb := range f.Blocks {
				for _, li := range lb.Instrs {
					if isLockOfV(li) && ssax.Precedes(li, in) {
						locked = true
					}
				}
			}
			if !locked {
				// from the publication, is the manager's Unlock reachable without locking the element?
				seen := map[*ssa.BasicBlock]bool{}
				var dfs func(x *ssa.BasicBlock, from int) bool
				dfs = func(x *ssa.BasicBlock, from int) bool {
					for i := from; i < len(x.Instrs); i++ {
						if isLockOfV(x.Instrs[i]) {
							return false
						}
						if isMgrUnlock(x.Instrs[i]) {
							return true
						}
					}
					if seen[x] {
						return false
					}
					seen[x] = true
					for _, sc := range x.Succs {
						if dfs(sc, 0) {
							return true
						}
					}
					return false
				}
				locked = !dfs(b, ssax.InstrIndex(in)+1)
			}
			key := fmt.Sprintf("published-locked#%d", nPub)
			if locked {
				c.Add("WITHCB", key, core.OK, w.At(in), "", props...)
			} else {
				c.Add("WITHCB", key, core.Violation, w.At(in), "an element is put into the manager's table and the manager lock is released without the element's own lock having been taken by this transaction: the next transaction that looks the name up gets it at once, while the one that published it is still writing to it", props...)
			}
		}
	}
}

func withCBSite(w *load.World, ls *lockset.Result, c *core.Collector, f *ssa.Function, cb *ssa.Call, elem ssa.Value, sfx string, props []string) {
	fieldOf := func(v ssa.Value, name string) (ssa.Value, bool) {
		fa, ok := v.(*ssa.FieldAddr)
		if !ok {
			return nil, false
		}
		st := ssax.StructOf(fa.X.Type())
		if st == nil || st.Field(fa.Field).Name() != name {
			return nil, false
		}
		return fa.X, true
	}
	fresh := func(v ssa.Value) bool {
		switch x := v.(type) {
		case *ssa.Alloc:
			return true
		case *ssa.Call:
			if g := x.Call.StaticCallee(); g != nil && ssax.InModule(g) {
				// a constructor helper: every return hands back its own allocation
				okAll, n := true, 0
				for _, gb := range g.Blocks {
					if r, isRet := gb.Instrs[len(gb.Instrs)-1].(*ssa.Return); isRet && len(r.Results) > 0 {
						if ssax.IsNilConst(r.Results[0]) {
							continue
						}
						n++
						if _, isAl := r.Results[0].(*ssa.Alloc); !isAl {
							okAll = false
						}
					}
				}
				return okAll && n > 0
			}
		case *ssa.Extract:
			if call, ok := x.Tuple.(*ssa.Call); ok && x.Index == 0 {
				if g := call.Call.StaticCallee(); g != nil && ssax.InModule(g) {
					okAll, n := true, 0
					for _, gb := range g.Blocks {
						if r, isRet := gb.Instrs[len(gb.Instrs)-1].(*ssa.Return); isRet && len(r.Results) > 0 {
							if ssax.IsNilConst(r.Results[0]) {
								continue
							}
							n++
							if _, isAl := r.Results[0].(*ssa.Alloc); !isAl {
								okAll = false
							}
						}
					}
					return okAll && n > 0
				}
			}
		}
		return false
	}
	// events on a value
	testedEvents := func(v ssa.Value) (*wcEvents, []*ssa.BasicBlock) {
		ev := &wcEvents{}
		var tests []*ssa.BasicBlock
		for _, b := range f.Blocks {
			ifi, ok := b.Instrs[len(b.Instrs)-1].(*ssa.If)
			if !ok {
				continue
			}
			cond, neg := ifi.Cond, false
			if u, ok := cond.(*ssa.UnOp); ok && u.Op == token.NOT {
				cond, neg = u.X, true
			}
			ld, ok := cond.(*ssa.UnOp)
			if !ok || ld.Op != token.MUL {
				continue
			}
			if x, ok := fieldOf(ld.X, "scrapped"); ok && wcCanon(x) == wcCanon(v) {
				s := 1
				if neg {
					s = 0
				}
				ev.edges = append(ev.edges, ssax.Edge{From: b, Succ: s})
				tests = append(tests, b)
			}
		}
		return ev, tests
	}
	lockEvents := func(v ssa.Value) *wcEvents { return wcLockEvents(ls, f, v, 0) }
	// walk the value backwards through phis
	type miss struct{ what string }
	var walk func(v ssa.Value, p wcPos, events func(ssa.Value) *wcEvents, seen map[*ssa.Phi]bool, hit func(v ssa.Value)) *miss
	walk = func(v ssa.Value, p wcPos, events func(ssa.Value) *wcEvents, seen map[*ssa.Phi]bool, hit func(v ssa.Value)) *miss {
		v = wcCanon(v)
		if fresh(v) {
			return nil
		}
		if events(v).covered(f, p) {
			if hit != nil {
				hit(v)
			}
			return nil
		}
		if phi, ok := v.(*ssa.Phi); ok && !seen[phi] {
			seen[phi] = true
			for i, e := range phi.Edges {
				pred := phi.Block().Preds[i]
				if m := walk(e, wcPos{pred: pred, succ: succIndex(pred, phi.Block())}, events, seen, hit); m != nil {
					return m
				}
			}
			return nil
		}
		where := ""
		for _, in := range p.pred.Instrs {
			if in.Pos().IsValid() {
				where = w.Position(in.Pos())
			}
		}
		if p.at != nil && p.at.Pos().IsValid() {
			where = w.At(p.at)
		}
		return &miss{fmt.Sprintf("the shared element found in the manager's table can reach the callback by way of %s", where)}
	}
	// tested
	var testBlocks []struct {
		v ssa.Value
		b *ssa.BasicBlock
	}
	tEvents := func(v ssa.Value) *wcEvents { ev, _ := testedEvents(v); return ev }
	mt := walk(elem, wcPos{pred: cb.Block(), succ: -1, at: cb}, tEvents, map[*ssa.Phi]bool{}, func(v ssa.Value) {
		_, tests := testedEvents(v)
		for _, b := range tests {
			testBlocks = append(testBlocks, struct {
				v ssa.Value
				b *ssa.BasicBlock
			}{v, b})
		}
	})
	if mt == nil {
		c.Add("WITHCB", "scrapped-tested"+sfx, core.OK, w.At(cb), "", props...)
	} else {
		c.Add("WITHCB", "scrapped-tested"+sfx, core.Violation, w.At(cb), mt.what+" without its scrapped flag having been tested: the callback runs on a cache that a failed transaction has invalidated", props...)
	}
	// locked: at the tests (so that the flag is read under the lock), else at the callback
	var ml *miss
	if mt == nil && len(testBlocks) > 0 {
		for _, tb := range testBlocks {
			last := tb.b.Instrs[len(tb.b.Instrs)-1]
			if m := walk(tb.v, wcPos{pred: tb.b, succ: -1, at: last}, lockEvents, map[*ssa.Phi]bool{}, nil); m != nil {
				ml = m
			}
		}
	} else {
		ml = walk(elem, wcPos{pred: cb.Block(), succ: -1, at: cb}, lockEvents, map[*ssa.Phi]bool{}, nil)
	}
	if ml == nil {
		c.Add("WITHCB", "locked"+sfx, core.OK, w.At(cb), "", props...)
	} else {
		c.Add("WITHCB", "locked"+sfx, core.Violation, w.At(cb), ml.what+" without the element's lock being held (taken here, obtained by a successful try, or write-held by this transaction): the callback reads a cache that a writer is changing, and the scrapped flag is read unprotected", props...)
	}
	// no explicit release that can still reach the callback
	bad := ""
	for _, b := range f.Blocks {
		for _, in := range b.Instrs {
			call, ok := in.(*ssa.Call)
			if !ok {
				continue
			}
			if kind, l, isOp := lockset.AsLockOp(call.Common()); isOp && l.Class == elemLock && strings.HasSuffix(kind, "nlock") {
				if b == cb.Block() && ssax.Precedes(call, cb) || b != cb.Block() && ssax.Reaches(b, cb.Block()) {
					bad = w.At(call)
				}
			}
		}
	}
	if bad == "" {
		c.Add("WITHCB", "held-until-callback"+sfx, core.OK, w.At(cb), "", props...)
	} else {
		c.Add("WITHCB", "held-until-callback"+sfx, core.Violation, bad, "an element lock is released on a path that goes on to the callback", props...)
	}
	_ = types.Typ
}

const elemLock = "cache.sharedCacheElem.mu"

// wcWrittenOK: the value is true only if the transaction's writtenCaches table has the
// entry: the ok of a lookup in it, or the result of a predicate helper that returns that.
func wcWrittenOK(v ssa.Value, depth int) bool {
	switch x := v.(type) {
	case *ssa.Extract:
		if lk, ok := x.Tuple.(*ssa.Lookup); ok && lk.CommaOk && x.Index == 1 {
			p, _ := ssax.Path(lk.X)
			return strings.Contains(p, "writtenCaches")
		}
	case *ssa.Call:
		g := x.Call.StaticCallee()
		if g == nil || !ssax.InModule(g) || depth > 1 || g.Signature.Results().Len() != 1 {
			return false
		}
		n := 0
		for _, b := range g.Blocks {
			r, ok := b.Instrs[len(b.Instrs)-1].(*ssa.Return)
			if !ok || b == g.Recover {
				continue // the recover block of a function with a defer returns after a panic only
			}
			n++
			rv := ssax.ReturnOperand(r, 0)
			if cb, isC := ssax.ConstBool(rv); isC && !cb {
				continue
			}
			if !wcWrittenOK(rv, depth+1) {
				return false
			}
		}
		return n > 0
	}
	return false
}

// wcLockEvents: the events in fn after which the lock of element v is held by (or on behalf of) the caller.
func wcLockEvents(ls *lockset.Result, fn *ssa.Function, v ssa.Value, depth int) *wcEvents {
	ev := &wcEvents{}
	trueEdges := func(pred func(ssa.Value) bool) {
		for _, b := range fn.Blocks {
			ifi, ok := b.Instrs[len(b.Instrs)-1].(*ssa.If)
			if !ok {
				continue
			}
			cond, neg := ifi.Cond, false
			if u, ok := cond.(*ssa.UnOp); ok && u.Op == token.NOT {
				cond, neg = u.X, true
			}
			if pred(cond) {
				s := 0
				if neg {
					s = 1
				}
				ev.edges = append(ev.edges, ssax.Edge{From: b, Succ: s})
			}
		}
		// the flag kept in a variable: "held := false; if ... { _, held = table[name] }; if held"
		ev.edges = append(ev.edges, phiCondEdges(fn, nil, pred)...)
	}
	isMu := func(a ssa.Value) bool {
		fa, ok := a.(*ssa.FieldAddr)
		if !ok || wcCanon(fa.X) != wcCanon(v) {
			return false
		}
		st := ssax.StructOf(fa.X.Type())
		return st != nil && st.Field(fa.Field).Name() == "mu"
	}
	for _, b := range fn.Blocks {
		for _, in := range b.Instrs {
			call, ok := in.(*ssa.Call)
			if !ok {
				continue
			}
			if kind, l, isOp := lockset.AsLockOp(call.Common()); isOp && l.Class == elemLock {
				if !isMu(call.Call.Args[0]) {
					continue
				}
				switch kind {
				case "Lock", "RLock":
					ev.instrs = append(ev.instrs, call)
				case "TryLock", "TryRLock":
					trueEdges(func(c ssa.Value) bool { return c == ssa.Value(call) })
				}
				continue
			}
			g := call.Call.StaticCallee()
			if g == nil || !ssax.InModule(g) || len(g.Blocks) == 0 {
				continue
			}
			pi := -1
			for i, a := range call.Call.Args {
				if wcCanon(a) == wcCanon(v) && i < len(g.Params) {
					pi = i
				}
			}
			if pi < 0 {
				continue
			}
			// a helper that takes the element's lock for its caller
			if l, ok := ls.TryLikeOf(g); ok && l.Class == elemLock {
				trueEdges(func(c ssa.Value) bool { return c == ssa.Value(call) })
			}
			held := false
			for _, l := range ls.HeldOnReturnOf(g) {
				if l.Class == elemLock {
					held = true
				}
			}
			if !held && depth < 2 {
				// every return of the helper is behind an event of its own ("lock it unless this
				// transaction already holds it")
				gev := wcLockEvents(ls, g, g.Params[pi], depth+1)
				all, n := true, 0
				for _, gb := range g.Blocks {
					if r, isRet := gb.Instrs[len(gb.Instrs)-1].(*ssa.Return); isRet {
						n++
						if !gev.covered(g, wcPos{pred: gb, succ: -1, at: r}) {
							all = false
						}
					}
				}
				held = all && n > 0
			}
			if held {
				ev.instrs = append(ev.instrs, call)
			}
		}
	}
	// already write-held by this transaction: the element is in its writtenCaches table
	trueEdges(func(c ssa.Value) bool { return wcWrittenOK(c, 0) })
	return ev
}

// wcCanon: a variable that a literal captures lives in a cell; every read of it is a separate load.
// When the cell is assigned once, all those loads are the value that was stored.
func wcCanon(v ssa.Value) ssa.Value {
	for i := 0; i < 4; i++ {
		ld, ok := v.(*ssa.UnOp)
		if !ok || ld.Op != token.MUL {
			return v
		}
		cell, ok := ld.X.(*ssa.Alloc)
		if !ok {
			return v
		}
		sv := ssax.SingleStore(cell)
		if sv == nil {
			return v
		}
		v = sv
	}
	return v
}
