package rules

import (
	"fmt"
	"go/token"
	"go/types"
	"sort"
	"strings"

	"golang.org/x/tools/go/ssa"

	"semaverif/internal/core"
	"semaverif/internal/load"
	"semaverif/internal/ssax"
)

// ------------------------------------------------------------------- BORROW
//
// The byte slices a storage bucket hands out (Get, and the k/v arguments of
// the ForEach / PrefixScan / RangeScan callbacks) are only valid during the
// storage transaction: over bbolt they point into the memory map, and later
// writes reuse those pages. Whatever is kept beyond the transaction — above
// all the items the shared warm cache keeps — must own its memory, otherwise a
// warm answer silently diverges from a cold one (C04, C08).
//
// The rule is a whole-module forward alias analysis. A value is *borrowed* if
// it may share memory with such a slice: sources are the results of Get on a
// diskstore bucket (interface or implementation) and on a bbolt bucket/cursor,
// and the []byte parameters of function literals passed to the scan methods.
// Borrowedness flows through re-slicing, slice/pointer/unsafe conversions,
// &b[i], unsafe.Slice/String/SliceData, append(b, ...) (first operand), phis,
// interface boxing, local cells, struct values that hold a borrowed field,
// arguments into module callees and results out of them (context-insensitive);
// results of calls outside the module are fresh except for a short list of
// slicing helpers. A copy (make+copy, append(nil, b...), bytes.Clone, string(b),
// decoders that allocate) ends it.
//
// Obligation: no borrowed value is stored into a field of a struct declared in
// the module, into a map or slice element, or into a global — unless the
// container is a function-local temporary that provably does not leave the
// function (never returned, stored, sent, boxed or captured). One obligation
// per function that touches bucket bytes.

type borrowState struct {
	w       *load.World
	tainted map[ssa.Value]string // value -> where the borrowed memory came from
	cells   map[*ssa.Alloc]string
	work    []ssa.Value
}

func (s *borrowState) mark(v ssa.Value, why string) {
	if v == nil {
		return
	}
	if _, ok := s.tainted[v]; ok {
		return
	}
	if !canAlias(v.Type()) {
		return
	}
	s.tainted[v] = why
	s.work = append(s.work, v)
}

// canAlias: values of this type can share memory with a byte slice.
func canAlias(t types.Type) bool {
	return canAliasN(t, 0)
}

func canAliasN(t types.Type, depth int) bool {
	if depth > 4 {
		return false
	}
	switch u := t.Underlying().(type) {
	case *types.Slice, *types.Pointer, *types.Interface, *types.Map, *types.Chan, *types.Signature:
		return true
	case *types.Basic:
		return u.Kind() == types.UnsafePointer || u.Kind() == types.String && false
	case *types.Struct:
		for i := 0; i < u.NumFields(); i++ {
			if canAliasN(u.Field(i).Type(), depth+1) {
				return true
			}
		}
	case *types.Array:
		return canAliasN(u.Elem(), depth+1)
	case *types.Tuple:
		for i := 0; i < u.Len(); i++ {
			if canAliasN(u.At(i).Type(), depth+1) {
				return true
			}
		}
	}
	return false
}

func isByteSlice(t types.Type) bool {
	sl, ok := t.Underlying().(*types.Slice)
	if !ok {
		return false
	}
	b, ok := sl.Elem().Underlying().(*types.Basic)
	return ok && b.Kind() == types.Byte
}

// bucketMethod classifies a call as a bucket read: "get" (result borrowed) or
// "scan" (the callback's byte parameters are borrowed).
func bucketMethod(c *ssa.CallCommon) string {
	name := ""
	var recv types.Type
	if c.IsInvoke() {
		name = c.Method.Name()
		recv = c.Value.Type()
	} else if g := c.StaticCallee(); g != nil && g.Signature.Recv() != nil {
		name = g.Name()
		recv = g.Signature.Recv().Type()
	} else {
		return ""
	}
	n := ssax.NamedOf(recv)
	if n == nil || n.Obj().Pkg() == nil {
		return ""
	}
	pkg := n.Obj().Pkg().Path()
	switch {
	case strings.HasSuffix(pkg, "/diskstore"):
		switch name {
		case "Get":
			if sig := c.Signature(); sig.Results().Len() == 1 && isByteSlice(sig.Results().At(0).Type()) {
				return "get"
			}
		case "ForEach", "PrefixScan", "RangeScan":
			return "scan"
		}
	case pkg == "go.etcd.io/bbolt":
		switch name {
		case "Get", "Seek", "First", "Last", "Next", "Prev":
			return "get"
		case "ForEach":
			return "scan"
		}
	}
	return ""
}

// externalAliasers: functions outside the module whose result shares memory
// with their (first) slice argument.
func externalAliases(name string) bool {
	for _, p := range []string{"bytes.Trim", "bytes.Fields", "bytes.Split", "bytes.Cut", "bytes.TrimSpace", "bytes.TrimPrefix", "bytes.TrimSuffix", "bytes.TrimLeft", "bytes.TrimRight",
		"bytes.NewBuffer", "bytes.NewReader", "slices.Clip", "slices.Grow",
		"(*github.com/RoaringBitmap/roaring/v2/roaring64.Bitmap).FromUnsafeBytes", "(*github.com/RoaringBitmap/roaring/roaring64.Bitmap).FromUnsafeBytes"} {
		if strings.HasPrefix(name, p) {
			return true
		}
	}
	return false
}

func Borrow(w *load.World, c *core.Collector) {
	s := &borrowState{w: w, tainted: map[ssa.Value]string{}, cells: map[*ssa.Alloc]string{}}
	touches := map[*ssa.Function]bool{}
	// --- sources
	for _, f := range w.Fns {
		if !load.InMod(f) {
			continue
		}
		for _, b := range f.Blocks {
			for _, in := range b.Instrs {
				call, ok := in.(ssa.CallInstruction)
				if !ok {
					continue
				}
				cc := call.Common()
				switch bucketMethod(cc) {
				case "get":
					if v := call.Value(); v != nil {
						touches[f] = true
						s.mark(v, "bucket."+ssax.CalleeName(cc)+" at "+w.At(in))
					}
				case "scan":
					for _, a := range cc.Args {
						for _, lit := range closuresOf(a) {
							touches[lit] = true
							for _, p := range lit.Params {
								if isByteSlice(p.Type()) {
									s.mark(p, "the "+p.Name()+" argument of the scan callback at "+w.Position(lit.Pos()))
								}
							}
						}
					}
				}
			}
		}
	}
	c.Count("borrow sources", len(s.tainted))
	// --- propagation to a fixed point
	for len(s.work) > 0 {
		v := s.work[len(s.work)-1]
		s.work = s.work[:len(s.work)-1]
		why := s.tainted[v]
		refs := v.Referrers()
		if refs == nil {
			continue
		}
		for _, r := range *refs {
			s.flow(v, r, why)
		}
		// a parameter: nothing more; a call result is handled at the call
	}
	// --- sinks
	txLits := map[*ssa.Function]bool{}
	for _, cb := range txCallbacks(w) {
		if cb.Fn != nil && cb.Fn.Parent() != nil {
			txLits[cb.Fn] = true
		}
	}
	type hit struct{ where, what string }
	per := map[*ssa.Function][]hit{}
	for _, f := range w.Fns {
		if !load.InMod(f) {
			continue
		}
		for _, b := range f.Blocks {
			for _, in := range b.Instrs {
				var addr, val ssa.Value
				kind := ""
				switch x := in.(type) {
				case *ssa.Store:
					addr, val, kind = x.Addr, x.Val, "store"
				case *ssa.MapUpdate:
					addr, val, kind = x.Map, x.Value, "map"
					if _, ok := s.tainted[x.Key]; ok && val != nil {
						if _, ok2 := s.tainted[val]; !ok2 {
							val = x.Key
						}
					}
				case *ssa.Send:
					addr, val, kind = x.Chan, x.X, "send"
				default:
					continue
				}
				why, ok := s.tainted[val]
				if !ok {
					continue
				}
				touches[f] = true
				// assigned to a variable of the function that runs the transaction, from inside the
				// transaction's callback: the variable outlives the transaction
				if fv, isFV := addr.(*ssa.FreeVar); isFV && kind == "store" && txLits[f] {
					per[f] = append(per[f], hit{w.At(in), fmt.Sprintf("the variable %s of the enclosing function, which is still there when the transaction has ended, keeps memory borrowed from %s", fv.Name(), why)})
					continue
				}
				root, desc := storeRoot(addr)
				if kind == "store" {
					if _, isAlloc := addr.(*ssa.Alloc); isAlloc {
						continue // a plain local variable: handled as a cell
					}
				}
				if al, ok := root.(*ssa.Alloc); ok && !s.localEscapes(al) {
					continue
				}
				if desc == "" {
					continue
				}
				per[f] = append(per[f], hit{w.At(in), fmt.Sprintf("%s keeps memory borrowed from %s", desc, why)})
			}
		}
	}
	var fs []*ssa.Function
	for f := range touches {
		fs = append(fs, f)
	}
	sort.Slice(fs, func(i, j int) bool { return fs[i].String() < fs[j].String() })
	seen := map[string]bool{}
	for _, f := range fs {
		key := load.FnKey(f)
		if seen[key] {
			continue
		}
		seen[key] = true
		var hs []hit
		for g, h := range per {
			if load.FnKey(g) == key {
				hs = append(hs, h...)
			}
		}
		props := []string{"C04", "C08"}
		switch {
		case strings.Contains(key, "cluster."):
			props = []string{"C14", "C16"} // the node database: collection records moved at start-up, looked up per tenant
		case strings.Contains(key, "shard.Shard") || strings.Contains(key, "pointstore."):
			props = []string{"C09", "C08"} // point documents handed to searches and to the index pipeline
		}
		if len(hs) == 0 {
			c.Add("BORROW", "retained:"+key, core.OK, w.Position(f.Pos()), "bytes handed out by a storage bucket are copied before anything keeps them", props...)
			continue
		}
		sort.Slice(hs, func(i, j int) bool { return hs[i].where+hs[i].what < hs[j].where+hs[j].what })
		var parts []string
		for _, h := range hs {
			p := h.where + ": " + h.what
			if len(parts) == 0 || parts[len(parts)-1] != p {
				parts = append(parts, p)
			}
		}
		c.Add("BORROW", "retained:"+key, core.Violation, hs[0].where, strings.Join(parts, "; ")+" — the slice is only valid during the storage transaction (over bbolt it points into the memory map), so what is kept changes under later writes", props...)
	}
}

// closuresOf returns the function literals a callback argument can be.
func closuresOf(v ssa.Value) []*ssa.Function {
	switch x := v.(type) {
	case *ssa.MakeClosure:
		if f, ok := x.Fn.(*ssa.Function); ok {
			return []*ssa.Function{f}
		}
	case *ssa.Function:
		return []*ssa.Function{x}
	case *ssa.ChangeType:
		return closuresOf(x.X)
	case *ssa.Phi:
		var out []*ssa.Function
		for _, e := range x.Edges {
			out = append(out, closuresOf(e)...)
		}
		return out
	}
	return nil
}

// storeRoot walks an address to its root object and describes the container.
func storeRoot(addr ssa.Value) (ssa.Value, string) {
	desc := ""
	for {
		switch x := addr.(type) {
		case *ssa.FieldAddr:
			st := ssax.StructOf(x.X.Type())
			if desc == "" && st != nil {
				n := ssax.TypeName(x.X.Type())
				desc = "field " + strings.TrimPrefix(n, "*") + "." + st.Field(x.Field).Name()
			}
			addr = x.X
		case *ssa.IndexAddr:
			if desc == "" {
				desc = "an element of " + x.X.Name()
			}
			addr = x.X
		case *ssa.UnOp:
			if x.Op != token.MUL {
				return x, desc
			}
			// a load of a pointer: through a local cell it is still that cell
			if al, ok := x.X.(*ssa.Alloc); ok {
				if sv := ssax.SingleStore(al); sv != nil {
					addr = sv
					continue
				}
			}
			return x, desc
		case *ssa.Alloc:
			return x, desc
		case *ssa.Global:
			if desc == "" {
				desc = "global " + x.Name()
			}
			return x, desc
		case *ssa.MakeMap, *ssa.MakeSlice:
			if desc == "" {
				desc = "an element of a local " + x.Name()
			}
			return x, desc
		default:
			if desc == "" {
				if _, ok := addr.Type().Underlying().(*types.Map); ok {
					desc = "an entry of map " + addr.Name()
				} else if _, ok := addr.Type().Underlying().(*types.Chan); ok {
					desc = "a channel"
				}
			}
			return addr, desc
		}
	}
}

// localEscapes: the local object (or a copy of its contents) leaves the
// function — returned, stored elsewhere, sent, boxed, captured, or passed to a
// call that keeps it. A conservative syntactic escape test on the SSA value.
func (s *borrowState) localEscapes(al *ssa.Alloc) bool {
	seen := map[ssa.Value]bool{}
	var esc func(v ssa.Value) bool
	esc = func(v ssa.Value) bool {
		if seen[v] {
			return false
		}
		seen[v] = true
		refs := v.Referrers()
		if refs == nil {
			return true
		}
		for _, r := range *refs {
			switch x := r.(type) {
			case *ssa.Return, *ssa.Send, *ssa.MakeInterface, *ssa.MakeClosure, *ssa.MapUpdate, *ssa.Go, *ssa.Defer:
				return true
			case *ssa.Store:
				if x.Val == v {
					if dst, ok := x.Addr.(*ssa.Alloc); ok {
						if esc(dst) {
							return true
						}
						continue
					}
					return true
				}
			case *ssa.UnOp:
				if x.Op == token.MUL {
					// loading the whole object yields a copy that carries the borrowed field
					if canAlias(x.Type()) && esc(x) {
						return true
					}
				}
			case *ssa.FieldAddr, *ssa.IndexAddr, *ssa.Field, *ssa.Index:
				// reading a component: the component may be the borrowed slice, which is
				// tracked by the taint itself
			case *ssa.Phi, *ssa.ChangeType, *ssa.Convert, *ssa.Slice, *ssa.Extract, *ssa.TypeAssert:
				if esc(r.(ssa.Value)) {
					return true
				}
			case ssa.CallInstruction:
				// passed to a call: kept only if the callee stores it, which the taint
				// propagation into the callee decides (the parameter becomes borrowed there)
				cc := x.Common()
				if g := cc.StaticCallee(); g == nil || !ssax.InModule(g) {
					if cc.IsInvoke() {
						return true
					}
					if g == nil {
						return true
					}
					// an external function: assume it does not keep its arguments
				}
			}
		}
		return false
	}
	return esc(al)
}

func (s *borrowState) flow(v ssa.Value, r ssa.Instruction, why string) {
	switch x := r.(type) {
	case *ssa.Slice:
		if x.X == v {
			s.mark(x, why)
		}
	case *ssa.ChangeType:
		s.mark(x, why)
	case *ssa.ChangeInterface:
		s.mark(x, why)
	case *ssa.MakeInterface:
		s.mark(x, why)
	case *ssa.TypeAssert:
		s.mark(x, why)
	case *ssa.Extract:
		// a tuple is borrowed as a whole; the component decides by type
		s.mark(x, why)
	case *ssa.Convert:
		// []byte -> string and string -> []byte copy; slice/pointer/unsafe conversions alias
		if bt, ok := x.Type().Underlying().(*types.Basic); ok && bt.Info()&types.IsString != 0 {
			return
		}
		if bt, ok := x.X.Type().Underlying().(*types.Basic); ok && bt.Info()&types.IsString != 0 {
			return
		}
		s.mark(x, why)
	case *ssa.SliceToArrayPointer:
		s.mark(x, why)
	case *ssa.Phi:
		s.mark(x, why)
	case *ssa.IndexAddr:
		if x.X == v {
			s.mark(x, why) // &b[i] points into the borrowed memory
		}
	case *ssa.FieldAddr:
		// the address of a field of a borrowed-holding object: loads decide
		if x.X == v {
			s.mark(x, why)
		}
	case *ssa.Field:
		if x.X == v {
			s.mark(x, why)
		}
	case *ssa.Index:
		if x.X == v {
			s.mark(x, why)
		}
	case *ssa.Lookup:
		if x.X == v {
			s.mark(x, why)
		}
	case *ssa.UnOp:
		if x.Op == token.MUL && x.X == v {
			// a load through a borrowed pointer / from a cell holding borrowed data; a load
			// of a scalar is filtered by mark (canAlias)
			if _, isElem := v.(*ssa.IndexAddr); isElem {
				// *(&b[i]) is an element value: aliasing only if the element type can
				s.mark(x, why)
				return
			}
			s.mark(x, why)
		}
	case *ssa.Store:
		if x.Val != v {
			return
		}
		root, _ := storeRoot(x.Addr)
		switch a := root.(type) {
		case *ssa.Alloc:
			// the local object now holds borrowed memory: the object (pointer) is borrowed
			s.mark(a, why)
		case *ssa.Parameter:
			// stored through a parameter: the caller's argument now holds borrowed memory
			s.outParam(a, why)
		case *ssa.FreeVar:
			s.outFree(a, why)
		}
	case *ssa.MapUpdate:
		if x.Value == v || x.Key == v {
			if mm, ok := x.Map.(*ssa.MakeMap); ok {
				s.mark(mm, why)
			} else {
				root, _ := storeRoot(x.Map)
				switch a := root.(type) {
				case *ssa.Alloc:
					s.mark(a, why)
				case *ssa.MakeMap:
					s.mark(a, why)
				}
			}
		}
	case *ssa.MakeClosure:
		if f, ok := x.Fn.(*ssa.Function); ok {
			for i, b := range x.Bindings {
				if b == v && i < len(f.FreeVars) {
					s.mark(f.FreeVars[i], why)
				}
			}
		}
	case *ssa.Return:
		f := x.Parent()
		for i, res := range x.Results {
			if res != v {
				continue
			}
			s.returned(f, i, len(x.Results), why)
		}
	case ssa.CallInstruction:
		cc := x.Common()
		// builtins
		if b, ok := cc.Value.(*ssa.Builtin); ok {
			switch b.Name() {
			case "append":
				if len(cc.Args) > 0 && cc.Args[0] == v {
					if val := x.Value(); val != nil {
						s.mark(val, why)
					}
				}
			case "Slice", "SliceData", "String", "StringData", "Add":
				if val := x.Value(); val != nil {
					s.mark(val, why)
				}
			}
			return
		}
		callees := s.w.Callees(x, false)
		if len(callees) == 0 {
			if g := cc.StaticCallee(); g != nil && !ssax.InModule(g) {
				if externalAliases(g.String()) {
					if val := x.Value(); val != nil {
						s.mark(val, why)
					}
				}
			}
			return
		}
		for _, g := range callees {
			if len(g.Blocks) == 0 {
				continue
			}
			// receiver of an invoke is parameter 0 of the callee
			args := cc.Args
			if cc.IsInvoke() {
				args = append([]ssa.Value{cc.Value}, cc.Args...)
			}
			for i, a := range args {
				if a == v && i < len(g.Params) {
					s.mark(g.Params[i], why)
				}
			}
			if cc.Value == v && !cc.IsInvoke() {
				// calling a borrowed closure value: its free variables were marked at MakeClosure
			}
		}
	}
}

// returned: result i of f is borrowed: so is the value of every call of f.
func (s *borrowState) returned(f *ssa.Function, i, n int, why string) {
	if s.w.CG == nil {
		return
	}
	node := s.w.CG.Nodes[f]
	if node == nil {
		return
	}
	for _, e := range node.In {
		if e.Site == nil {
			continue
		}
		val := e.Site.Value()
		if val == nil {
			continue
		}
		if n == 1 {
			s.mark(val, why)
			continue
		}
		if refs := val.Referrers(); refs != nil {
			for _, r := range *refs {
				if ex, ok := r.(*ssa.Extract); ok && ex.Index == i {
					s.mark(ex, why)
				}
			}
		}
	}
}

// outParam: f stored borrowed memory into the object parameter p points to:
// at every call site the argument object holds it now.
func (s *borrowState) outParam(p *ssa.Parameter, why string) {
	f := p.Parent()
	idx := -1
	for i, q := range f.Params {
		if q == p {
			idx = i
		}
	}
	if idx < 0 || s.w.CG == nil {
		return
	}
	node := s.w.CG.Nodes[f]
	if node == nil {
		return
	}
	for _, e := range node.In {
		if e.Site == nil {
			continue
		}
		cc := e.Site.Common()
		args := cc.Args
		if cc.IsInvoke() {
			args = append([]ssa.Value{cc.Value}, cc.Args...)
		}
		if idx >= len(args) {
			continue
		}
		root, _ := storeRoot(args[idx])
		switch a := root.(type) {
		case *ssa.Alloc:
			s.mark(a, why)
		case *ssa.Parameter:
			if _, done := s.tainted[a]; !done {
				s.mark(a, why)
				s.outParam(a, why)
			}
		default:
			s.mark(args[idx], why)
		}
	}
}

// outFree: a closure stored borrowed memory into a captured variable.
func (s *borrowState) outFree(fv *ssa.FreeVar, why string) {
	fn := fv.Parent()
	if fn == nil || fn.Parent() == nil {
		return
	}
	idx := -1
	for i, q := range fn.FreeVars {
		if q == fv {
			idx = i
		}
	}
	for _, b := range fn.Parent().Blocks {
		for _, in := range b.Instrs {
			if mc, ok := in.(*ssa.MakeClosure); ok && mc.Fn == fn && idx >= 0 && idx < len(mc.Bindings) {
				switch a := mc.Bindings[idx].(type) {
				case *ssa.Alloc:
					s.mark(a, why)
				case *ssa.FreeVar:
					s.mark(a, why)
					s.outFree(a, why)
				}
			}
		}
	}
}
