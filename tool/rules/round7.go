package rules

import (
	"fmt"
	"go/token"
	"go/types"
	"sort"
	"strings"

	"golang.org/x/tools/go/ssa"

	"semaverif/internal/core"
	"semaverif/internal/load"
	"semaverif/internal/ssax"
)

// Clauses added after the seventh blind round.

// operandsVerbatim: the dispatcher hands the query's values to the scalar indexes as they are. A
// value that is computed from the query's (v+1 to turn a strict bound into an inclusive one) wraps
// around at the ends of the integer range: "greater than MaxInt64" becomes "at least MinInt64".
func operandsVerbatim(w *load.World, c *core.Collector) {
	props := []string{"C02"}
	n := 0
	bad := ""
	var badAt ssa.Instruction
	for _, f := range w.Fns {
		if load.PkgPath(f) != load.Mod+"/shard/index" || f.Synthetic != "" {
			continue
		}
		for _, b := range f.Blocks {
			for _, in := range b.Instrs {
				call, ok := in.(*ssa.Call)
				if !ok {
					continue
				}
				g := call.Call.StaticCallee()
				if g == nil || g.Name() != "Search" || load.PkgPath(g) != load.Mod+"/shard/index/inverted" {
					continue
				}
				n++
				for _, a := range call.Call.Args[1:] {
					seen := map[ssa.Value]bool{}
					var arith func(v ssa.Value, d int) bool
					arith = func(v ssa.Value, d int) bool {
						if d > 8 || v == nil || seen[v] {
							return false
						}
						seen[v] = true
						switch x := v.(type) {
						case *ssa.BinOp:
							switch x.Op {
							case token.ADD, token.SUB, token.MUL, token.QUO:
								if _, isStr := x.Type().Underlying().(*types.Basic); isStr && x.Type().Underlying().(*types.Basic).Info()&types.IsString != 0 {
									return false
								}
								return true
							}
						case *ssa.Phi:
							for _, e := range x.Edges {
								if arith(e, d+1) {
									return true
								}
							}
						case *ssa.UnOp:
							if al, ok := x.X.(*ssa.Alloc); ok && x.Op == token.MUL {
								for _, r := range *al.Referrers() {
									if st, ok := r.(*ssa.Store); ok && st.Addr == ssa.Value(al) && arith(st.Val, d+1) {
										return true
									}
								}
								return false
							}
							return arith(x.X, d+1)
						case *ssa.Convert:
							return arith(x.X, d+1)
						case *ssa.ChangeType:
							return arith(x.X, d+1)
						}
						return false
					}
					if arith(a, 0) {
						bad = "a query value reaches the " + strings.TrimPrefix(load.FnKey(g), "(*shard/index/inverted.") + " after arithmetic on it"
						badAt = in
					}
				}
			}
		}
	}
	switch {
	case n < 3:
		c.Add("OPTABLE", "operands-verbatim", core.Undecided, "", fmt.Sprintf("found %d searches of scalar indexes in the dispatcher, expected at least 3", n), props...)
	case bad != "":
		c.Add("OPTABLE", "operands-verbatim", core.Violation, w.At(badAt), bad+" (a strict bound rewritten as an inclusive one on the neighbouring value, say): at the ends of the value range the computed bound wraps around and the operator selects everything instead of nothing", props...)
	default:
		c.Add("OPTABLE", "operands-verbatim", core.OK, "", "", props...)
	}
}

// loopLeftOnlyByExhaustionOrError: the loop with this header is left from its header, or into a
// return that reports an error; the first other exit, or nil
func loopOtherExit(f *ssa.Function, hdr *ssa.BasicBlock) *ssa.BasicBlock {
	// the natural loop of hdr: what reaches one of its back edges without passing hdr
	in := map[*ssa.BasicBlock]bool{}
	var stack []*ssa.BasicBlock
	for _, p := range hdr.Preds {
		if hdr.Dominates(p) && p != hdr && !in[p] {
			in[p] = true
			stack = append(stack, p)
		}
	}
	for len(stack) > 0 {
		b := stack[len(stack)-1]
		stack = stack[:len(stack)-1]
		for _, p := range b.Preds {
			if p != hdr && !in[p] && hdr.Dominates(p) {
				in[p] = true
				stack = append(stack, p)
			}
		}
	}
	var blocks []*ssa.BasicBlock
	for b := range in {
		blocks = append(blocks, b)
	}
	sort.Slice(blocks, func(i, j int) bool { return blocks[i].Index < blocks[j].Index })
	for _, b := range blocks {
		for _, s := range b.Succs {
			if s == hdr || in[s] {
				continue
			}
			ret, ok := s.Instrs[len(s.Instrs)-1].(*ssa.Return)
			if ok && len(ret.Results) > 0 && nonNilError(ssax.ReturnOperand(ret, len(ret.Results)-1), s) {
				continue
			}
			return b
		}
	}
	return nil
}

// getManyComplete: ItemCache.GetMany answers for every id it is given: an id that is deleted or
// missing is skipped, the ids after it are still looked up. The loop over the ids is left only at
// its end or with an error (a break at the first missing id drops every id after it: a filtered
// graph search seeded from the filter's members loses all members behind a vector-less one).
func getManyComplete(w *load.World, c *core.Collector) {
	props := []string{"C03", "C10", "C08"}
	f := itemCacheMethod(w, "GetMany")
	if f == nil {
		c.Add("ITEMFLAGS", "anchor:GetMany", core.Undecided, "", "cache.ItemCache.GetMany not found", props...)
		return
	}
	// the loop that appends to the result
	var hdr *ssa.BasicBlock
	for _, b := range f.Blocks {
		for _, in := range b.Instrs {
			if call, ok := in.(*ssa.Call); ok {
				if bi, ok := call.Call.Value.(*ssa.Builtin); ok && bi.Name() == "append" && inLoop(b) {
					for _, h := range f.Blocks {
						// a loop header: dominates one of its own predecessors; the innermost one
						// around the append
						if h.Dominates(b) && ssax.Reaches(b, h) && h != b {
							back := false
							for _, p := range h.Preds {
								if h.Dominates(p) {
									back = true
								}
							}
							if back && (hdr == nil || hdr.Dominates(h)) {
								hdr = h
							}
						}
					}
				}
			}
		}
	}
	if hdr == nil {
		c.Add("ITEMFLAGS", "getmany-complete", core.Undecided, w.Position(f.Pos()), "the loop of GetMany that collects the values was not found", props...)
		return
	}
	if b := loopOtherExit(f, hdr); b != nil {
		c.Add("ITEMFLAGS", "getmany-complete", core.Violation, w.At(b.Instrs[len(b.Instrs)-1]), "the loop over the requested ids can be left before the last id without an error (a break on a missing or deleted id): every id after it is silently missing from the answer", props...)
	} else {
		c.Add("ITEMFLAGS", "getmany-complete", core.OK, w.Position(f.Pos()), "", props...)
	}
}

// idfFromPosting: the inverse document frequency of a term is computed from the size of the
// term's whole posting set (a field of the cached set item), not from a set derived from it (the
// posting already intersected with the query's pre-filter): the statistic describes the corpus.
func idfFromPosting(w *load.World, c *core.Collector) {
	props := []string{"C05"}
	n := 0
	bad := ""
	var badAt ssa.Instruction
	var classify func(v ssa.Value, seen map[ssa.Value]bool, d int) string
	classify = func(v ssa.Value, seen map[ssa.Value]bool, d int) string {
		if d > 8 || v == nil || seen[v] {
			return ""
		}
		seen[v] = true
		switch x := v.(type) {
		case *ssa.UnOp:
			if fa, ok := x.X.(*ssa.FieldAddr); ok {
				if st := ssax.StructOf(fa.X.Type()); st != nil && st.Field(fa.Field).Name() == "set" {
					return "posting"
				}
			}
			if al, ok := x.X.(*ssa.Alloc); ok {
				out := ""
				for _, r := range *al.Referrers() {
					if st, ok := r.(*ssa.Store); ok && st.Addr == ssa.Value(al) {
						if k := classify(st.Val, seen, d+1); k == "derived" {
							return k
						} else if k != "" {
							out = k
						}
					}
				}
				return out
			}
			return classify(x.X, seen, d+1)
		case *ssa.Field:
			if st := ssax.StructOf(x.X.Type()); st != nil && st.Field(x.Field).Name() == "set" {
				return "posting"
			}
		case *ssa.Phi:
			out := ""
			for _, e := range x.Edges {
				if k := classify(e, seen, d+1); k == "derived" {
					return k
				} else if k != "" {
					out = k
				}
			}
			return out
		case *ssa.Call:
			if g := x.Call.StaticCallee(); g != nil && strings.Contains(g.String(), "roaring64.") {
				switch g.Name() {
				case "And", "AndNot", "FastAnd", "Or", "FastOr", "Xor", "ParAnd", "ParOr":
					return "derived"
				}
			}
		case *ssa.Extract:
			return classify(x.Tuple, seen, d+1)
		case *ssa.Lookup:
			// a map filled earlier: what was put into it
			out := ""
			m := x.X
			if ld, ok := m.(*ssa.UnOp); ok {
				m = ld.X
			}
			for _, fn := range []*ssa.Function{x.Parent()} {
				for _, b := range fn.Blocks {
					for _, in := range b.Instrs {
						mu, ok := in.(*ssa.MapUpdate)
						if !ok {
							continue
						}
						mm := mu.Map
						if ld, ok := mm.(*ssa.UnOp); ok {
							mm = ld.X
						}
						if mm != m && mu.Map != x.X {
							continue
						}
						if k := classify(mu.Value, seen, d+1); k == "derived" {
							return k
						} else if k != "" {
							out = k
						}
					}
				}
			}
			return out
		}
		return ""
	}
	for _, f := range w.Fns {
		if load.PkgPath(f) != load.Mod+"/shard/index/text" || f.Synthetic != "" {
			continue
		}
		for _, b := range f.Blocks {
			for _, in := range b.Instrs {
				call, ok := in.(*ssa.Call)
				if !ok || call.Call.StaticCallee() == nil || call.Call.StaticCallee().Name() != "GetCardinality" || len(call.Call.Args) == 0 {
					continue
				}
				// feeds a logarithm
				feeds := false
				seen := map[ssa.Value]bool{}
				var fwd func(v ssa.Value, d int)
				fwd = func(v ssa.Value, d int) {
					if d > 6 || seen[v] || v.Referrers() == nil {
						return
					}
					seen[v] = true
					for _, r := range *v.Referrers() {
						if cc, ok := r.(*ssa.Call); ok && cc.Call.StaticCallee() != nil && strings.HasPrefix(cc.Call.StaticCallee().String(), "math.Log") {
							feeds = true
						}
						if rv, ok := r.(ssa.Value); ok {
							switch r.(type) {
							case *ssa.BinOp, *ssa.Convert, *ssa.Phi:
								fwd(rv, d+1)
							}
						}
					}
				}
				fwd(call, 0)
				if !feeds {
					continue
				}
				n++
				if classify(call.Call.Args[0], map[ssa.Value]bool{}, 0) == "derived" {
					bad, badAt = "derived", in
				}
			}
		}
	}
	switch {
	case n == 0:
		c.Add("RANK", "text:idf-from-posting", core.Undecided, "", "no document-frequency term (a cardinality feeding a logarithm) found in the text index", props...)
	case bad != "":
		c.Add("RANK", "text:idf-from-posting", core.Violation, w.At(badAt), "the document frequency in the idf is the size of a set computed from the posting (intersected with the query's filter, say), not of the term's posting itself: scores, order and the top-limit cut of filtered queries differ from the tf-idf over the corpus", props...)
	default:
		c.Add("RANK", "text:idf-from-posting", core.OK, "", "", props...)
	}
}

// everyTokenCounted: a document's term frequencies count every token the analyser produced for
// it: the loop over the tokens has no way round the frequency update. The query side keeps every
// token of the same analyser, so a token the document side drops (too long, say) can be asked
// for and never found.
func everyTokenCounted(w *load.World, c *core.Collector) {
	props := []string{"C05"}
	n := 0
	bad := ""
	for _, f := range w.Fns {
		if load.PkgPath(f) != load.Mod+"/shard/index/text" || f.Synthetic != "" {
			continue
		}
		// document side: a function (literal) that builds a Terms map
		for _, b := range f.Blocks {
			if !inLoop(b) {
				continue
			}
			for _, in := range b.Instrs {
				mu, ok := in.(*ssa.MapUpdate)
				if !ok {
					continue
				}
				if _, ok := mu.Map.Type().Underlying().(*types.Map); !ok {
					continue
				}
				// keyed by a token's term: the frequency map of a document
				if !deepHas(w, mu.Key, "field:Term") && !ssax.Prov(mu.Key)["field:Term"] {
					continue
				}
				// not the query side
				if strings.Contains(f.Name(), "Search") || (f.Parent() != nil && strings.Contains(f.Parent().Name(), "Search")) {
					continue
				}
				n++
				if skippableInLoop(in) {
					bad = w.At(in)
				}
			}
		}
	}
	switch {
	case n == 0:
		c.Add("RANK", "text:every-token-counted", core.Undecided, "", "the loop that counts a document's tokens into its term map was not found", props...)
	case bad != "":
		c.Add("RANK", "text:every-token-counted", core.Violation, bad, "the loop over a document's tokens can go on to the next token without counting this one: the token is searchable in queries (the same analyser produces it there) but no document ever has it", props...)
	default:
		c.Add("RANK", "text:every-token-counted", core.OK, "", "", props...)
	}
}

// flushWritesLive: in ItemCache.Flush an element is written only on the edge on which its deleted
// mark was found unset. An element that is deleted and dirty at once (a graph node that got a back
// edge from an insert and was then deleted, in one batch) must be deleted, not written: written,
// it stays in the bucket as a node without a vector.
func flushWritesLive(w *load.World, c *core.Collector) {
	props := []string{"C10", "C08", "C04"}
	f := itemCacheMethod(w, "Flush")
	if f == nil {
		c.Add("ITEMFLAGS", "anchor:Flush", core.Undecided, "", "cache.ItemCache.Flush not found", props...)
		return
	}
	n := 0
	bad := ""
	isWrite := func(call *ssa.Call) bool {
		if call.Call.IsInvoke() {
			return call.Call.Method.Name() == "WriteTo"
		}
		g := call.Call.StaticCallee()
		return g != nil && g.Name() == "WriteTo"
	}
	var contains func(h *ssa.Function, depth int) bool
	contains = func(h *ssa.Function, depth int) bool {
		if h == nil || depth > 2 || !ssax.InModule(h) {
			return false
		}
		for _, g := range append([]*ssa.Function{h}, h.AnonFuncs...) {
			for _, b := range g.Blocks {
				for _, in := range b.Instrs {
					if call, ok := in.(*ssa.Call); ok {
						if isWrite(call) || (!call.Call.IsInvoke() && contains(call.Call.StaticCallee(), depth+1)) {
							return true
						}
					}
				}
			}
		}
		return false
	}
	liveAt := func(g *ssa.Function, b *ssa.BasicBlock) bool {
		for _, bb := range g.Blocks {
			ifi, ok := bb.Instrs[len(bb.Instrs)-1].(*ssa.If)
			if !ok {
				continue
			}
			cond, neg := ifi.Cond, false
			if un, ok := cond.(*ssa.UnOp); ok && un.Op == token.NOT {
				cond, neg = un.X, true
			}
			ld, ok := cond.(*ssa.UnOp)
			if !ok || ld.Op != token.MUL {
				continue
			}
			if _, ok := elemField(ld.X, "IsDeleted"); !ok {
				continue
			}
			edge := 1
			if neg {
				edge = 0
			}
			if ssax.OnlyViaEdge(bb, edge, b) {
				return true
			}
		}
		return false
	}
	// the write may sit in a helper of Flush: the deleted mark is then tested either around the
	// helper's call or around the write inside it
	var check func(h *ssa.Function, depth int)
	check = func(h *ssa.Function, depth int) {
		for _, g := range append([]*ssa.Function{h}, h.AnonFuncs...) {
			for _, b := range g.Blocks {
				for _, in := range b.Instrs {
					call, ok := in.(*ssa.Call)
					if !ok {
						continue
					}
					switch {
					case isWrite(call):
						n++
						if !liveAt(g, b) {
							bad = w.At(in)
						}
					case !call.Call.IsInvoke() && contains(call.Call.StaticCallee(), depth+1):
						if liveAt(g, b) {
							n++
						} else {
							check(call.Call.StaticCallee(), depth+1)
						}
					}
				}
			}
		}
	}
	check(f, 0)
	switch {
	case n == 0:
		c.Add("ITEMFLAGS", "flush-writes-live", core.Undecided, w.Position(f.Pos()), "no WriteTo call found in ItemCache.Flush", props...)
	case bad != "":
		c.Add("ITEMFLAGS", "flush-writes-live", core.Violation, bad, "an element can be written to the bucket without its deleted mark having been found unset: an element that is both deleted and dirty is written instead of deleted and stays on disk (a graph node without a vector)", props...)
	default:
		c.Add("ITEMFLAGS", "flush-writes-live", core.OK, w.Position(f.Pos()), "", props...)
	}
}

// DEADERR: an error is built (fmt.Errorf, errors.New, errors.Join) and the value is never used:
// it was assigned to a variable nobody reads — typically an `err :=` of an inner block that
// shadows the variable the function returns — so the failure it describes is reported nowhere.
func DeadErr(w *load.World, c *core.Collector) {
	per := map[string][]lintHit{}
	seen := map[string]bool{}
	for _, f := range w.Fns {
		if !load.InMod(f) || f.Synthetic != "" {
			continue
		}
		pkg := load.PkgPath(f)
		seen[pkg] = true
		for _, b := range f.Blocks {
			for _, in := range b.Instrs {
				call, ok := in.(*ssa.Call)
				if !ok {
					continue
				}
				switch staticName(call) {
				case "fmt.Errorf", "errors.New", "errors.Join":
				default:
					continue
				}
				used := false
				if refs := call.Referrers(); refs != nil {
					for _, r := range *refs {
						if _, isDbg := r.(*ssa.DebugRef); !isDbg {
							used = true
						}
					}
				}
				if !used {
					per[pkg] = append(per[pkg], lintHit{w.At(in), "an error is built here and never used (assigned to a variable that is not read again: an inner `err :=` shadowing the one that is returned): the failure is reported to nobody and the caller sees success"})
				}
			}
		}
	}
	emitLint(c, "DEADERR", "built-and-dropped", seen, per, func(p string) []string {
		if strings.Contains(p, "/shard") || strings.HasSuffix(p, "/diskstore") {
			return []string{"C07"}
		}
		return nil
	})
}

// memoKeyedByHashKey: where owners are remembered in a map (server per shard id, say), every
// value put into the map that is a RendezvousHash owner is the owner of the very key it is stored
// under. "The shard lives where it was created" stores the owner of the *user* (the destination of
// the create request) under the *shard's* id: the first batch for the new shard goes to a server
// that every other path never looks at.
func memoKeyedByHashKey(w *load.World, c *core.Collector) {
	props := []string{"C13", "C15", "C17"}
	n := 0
	bad := ""
	var badAt ssa.Instruction
	for _, f := range clusterFns(w) {
		for _, b := range f.Blocks {
			for _, in := range b.Instrs {
				mu, ok := in.(*ssa.MapUpdate)
				if !ok {
					continue
				}
				mt, ok := mu.Map.Type().Underlying().(*types.Map)
				if !ok {
					continue
				}
				if bt, ok := mt.Elem().Underlying().(*types.Basic); !ok || bt.Kind() != types.String {
					continue
				}
				var keys []ssa.Value
				if k := hashKeyOf(mu.Value, 0); k != nil {
					keys = append(keys, k)
				}
				for _, o := range ssax.Resolve(mu.Value) {
					if len(o.Path) == 0 && o.Val != nil {
						if k := hashKeyOf(o.Val, 0); k != nil {
							keys = append(keys, k)
						}
					}
				}
				if len(keys) == 0 {
					continue
				}
				n++
				mp, _ := ssax.Path(mu.Key)
				for _, k := range keys {
					kp, _ := ssax.Path(k)
					if k == mu.Key || (kp != "" && kp == mp) || peelToParam(k) == peelToParam(mu.Key) {
						continue
					}
					bad = fmt.Sprintf("an owner computed by hashing %s is remembered under the key %s", describeVal(k), describeVal(mu.Key))
					badAt = in
				}
			}
		}
	}
	if bad != "" {
		c.Add("ROUTE", "memo-keyed-by-hash-key", core.Violation, w.At(badAt), bad+": requests that look the owner up under that key are sent to a server that does not own it (and that no other path consults)", props...)
	} else {
		c.Add("ROUTE", "memo-keyed-by-hash-key", core.OK, "", fmt.Sprintf("%d remembered owners", n), props...)
	}
}

// storeKeyForm: the shard registry is keyed by the shard directory as filepath.Join builds it from
// the configured root. Every lookup, insertion and deletion uses a key of that form: a key that
// went through filepath.Abs (or Clean, EvalSymlinks, Rel) on one path and not on the others does
// not find the entry when the root is relative, and the shard is deleted while it is still open.
func storeKeyForm(w *load.World, c *core.Collector) {
	props := []string{"C12"}
	n := 0
	bad := ""
	var badAt ssa.Instruction
	transforms := func(v ssa.Value) string {
		found := ""
		seen := map[ssa.Value]bool{}
		var walk func(v ssa.Value, d int)
		walk = func(v ssa.Value, d int) {
			if d > 10 || v == nil || seen[v] || found != "" {
				return
			}
			seen[v] = true
			switch x := v.(type) {
			case *ssa.Call:
				if g := x.Call.StaticCallee(); g != nil && strings.HasPrefix(g.String(), "path/filepath.") {
					switch g.Name() {
					case "Abs", "EvalSymlinks", "Rel", "Clean", "ToSlash", "FromSlash":
						found = "filepath." + g.Name()
						return
					}
				}
				for _, a := range x.Call.Args {
					walk(a, d+1)
				}
			case *ssa.Extract:
				walk(x.Tuple, d+1)
			case *ssa.Phi:
				for _, e := range x.Edges {
					walk(e, d+1)
				}
			case *ssa.UnOp:
				if al, ok := x.X.(*ssa.Alloc); ok {
					for _, r := range *al.Referrers() {
						if st, ok := r.(*ssa.Store); ok && st.Addr == ssa.Value(al) {
							walk(st.Val, d+1)
						}
					}
					return
				}
				walk(x.X, d+1)
			case *ssa.Slice:
				walk(x.X, d+1)
			case *ssa.Alloc:
				for _, r := range *x.Referrers() {
					if ia, ok := r.(*ssa.IndexAddr); ok {
						for _, rr := range *ia.Referrers() {
							if st, ok := rr.(*ssa.Store); ok {
								walk(st.Val, d+1)
							}
						}
					}
				}
			case *ssa.Parameter:
				for i, q := range x.Parent().Params {
					if q != x {
						continue
					}
					for _, site := range staticCallSites(w, x.Parent()) {
						if i < len(site.Common().Args) {
							walk(site.Common().Args[i], d+1)
						}
					}
				}
			}
		}
		walk(v, 0)
		return found
	}
	isStore := isShardRegistry
	for _, f := range clusterFns(w) {
		for _, b := range f.Blocks {
			for _, in := range b.Instrs {
				var key ssa.Value
				switch x := in.(type) {
				case *ssa.Lookup:
					if isStore(x.X) {
						key = x.Index
					}
				case *ssa.MapUpdate:
					if isStore(x.Map) {
						key = x.Key
					}
				case *ssa.Call:
					if bi, ok := x.Call.Value.(*ssa.Builtin); ok && bi.Name() == "delete" && isStore(x.Call.Args[0]) {
						key = x.Call.Args[1]
					}
				}
				if key == nil {
					continue
				}
				n++
				if t := transforms(key); t != "" {
					bad, badAt = t, in
				}
			}
		}
	}
	switch {
	case n < 3:
		c.Add("LIFECYCLE", "store-key-form", core.Undecided, "", fmt.Sprintf("found %d uses of the shard registry, expected at least 3", n), props...)
	case bad != "":
		c.Add("LIFECYCLE", "store-key-form", core.Violation, w.At(badAt), "the shard registry is consulted under a key that went through "+bad+" while the entry was registered under the plain joined path: with a relative root directory the lookup misses, and the shard is removed (or loaded a second time) while it is registered and open", props...)
	default:
		c.Add("LIFECYCLE", "store-key-form", core.OK, "", "", props...)
	}
}

// MAPORDER: one function walks the same unordered collection twice (two `range` statements over
// one map, or two ForEach passes over a cache that is a map inside) and lines the two walks up by
// position: a running counter of one walk indexes what the other walk filled in its own order.
// Go randomises map iteration per range statement, so position k of the second walk is not the
// element that was at position k of the first: errors are attributed to other shards, codes to
// other points.
func MapOrder(w *load.World, c *core.Collector) {
	per := map[string][]lintHit{}
	seen := map[string]bool{}
	type iter struct {
		at              ssa.Instruction
		counterIndexes  bool
		counter, append bool
	}
	isInc := func(v ssa.Value, of ssa.Value) bool {
		bo, ok := v.(*ssa.BinOp)
		if !ok || bo.Op != token.ADD {
			return false
		}
		one, isC := ssax.ConstInt(bo.Y)
		return isC && one == 1 && bo.X == of
	}
	for _, top := range w.Fns {
		if !load.InMod(top) || top.Synthetic != "" || top.Parent() != nil {
			continue
		}
		pkg := load.PkgPath(top)
		seen[pkg] = true
		groups := map[string][]iter{}
		var fns []*ssa.Function
		var collect func(f *ssa.Function)
		collect = func(f *ssa.Function) {
			fns = append(fns, f)
			for _, a := range f.AnonFuncs {
				collect(a)
			}
		}
		collect(top)
		for _, f := range fns {
			for _, b := range f.Blocks {
				for _, in := range b.Instrs {
					switch x := in.(type) {
					case *ssa.Range:
						if _, isMap := x.X.Type().Underlying().(*types.Map); !isMap {
							continue
						}
						id, _ := ssax.Path(x.X)
						if id == "" {
							continue
						}
						// the loop: header is where Next sits
						var hdr *ssa.BasicBlock
						for _, r := range *x.Referrers() {
							if nx, ok := r.(*ssa.Next); ok {
								hdr = nx.Block()
							}
						}
						if hdr == nil {
							continue
						}
						it := iter{at: in}
						inBody := func(bb *ssa.BasicBlock) bool { return bb == hdr || (hdr.Dominates(bb) && ssax.Reaches(bb, hdr)) }
						var counters []*ssa.Phi
						for _, hi := range hdr.Instrs {
							phi, ok := hi.(*ssa.Phi)
							if !ok {
								continue
							}
							if bt, ok := phi.Type().Underlying().(*types.Basic); !ok || bt.Info()&types.IsInteger == 0 {
								continue
							}
							for _, e := range phi.Edges {
								if isInc(e, phi) {
									counters = append(counters, phi)
								}
							}
						}
						it.counter = len(counters) > 0
						for _, bb := range f.Blocks {
							if !inBody(bb) {
								continue
							}
							for _, bi := range bb.Instrs {
								if call, ok := bi.(*ssa.Call); ok {
									if bl, ok := call.Call.Value.(*ssa.Builtin); ok && bl.Name() == "append" {
										it.append = true
									}
								}
								for _, ctr := range counters {
									if ia, ok := bi.(*ssa.IndexAddr); ok && (ia.Index == ssa.Value(ctr) || isConvOf(ia.Index, ctr)) {
										it.counterIndexes = true
									}
									// handed to a goroutine or literal that indexes with it
									if ci, ok := bi.(ssa.CallInstruction); ok {
										for ai, a := range ci.Common().Args {
											if a != ssa.Value(ctr) {
												continue
											}
											if g := staticTargetOf(ci.Common()); g != nil && ai < len(g.Params) {
												for _, r := range *g.Params[ai].Referrers() {
													if ia, ok := r.(*ssa.IndexAddr); ok && ia.Index == ssa.Value(g.Params[ai]) {
														it.counterIndexes = true
													}
												}
											}
										}
									}
								}
							}
						}
						groups[id] = append(groups[id], it)
					case *ssa.Call:
						name := ""
						var recv ssa.Value
						if x.Call.IsInvoke() {
							name, recv = x.Call.Method.Name(), x.Call.Value
						} else if g := x.Call.StaticCallee(); g != nil && g.Signature.Recv() != nil && len(x.Call.Args) > 0 {
							name, recv = g.Name(), x.Call.Args[0]
						}
						if name != "ForEach" || recv == nil {
							continue
						}
						var lit *ssa.Function
						var mc *ssa.MakeClosure
						for _, a := range x.Call.Args {
							if m, ok := a.(*ssa.MakeClosure); ok {
								mc = m
								lit, _ = m.Fn.(*ssa.Function)
							}
						}
						if lit == nil {
							continue
						}
						id, _ := ssax.Path(recv)
						if id == "" {
							continue
						}
						id = "foreach:" + id
						it := iter{at: in}
						for i, fv := range lit.FreeVars {
							_ = mc
							_ = i
							isCounter := false
							var loads []ssa.Value
							for _, r := range *fv.Referrers() {
								if ld, ok := r.(*ssa.UnOp); ok && ld.Op == token.MUL {
									loads = append(loads, ld)
								}
							}
							for _, r := range *fv.Referrers() {
								if st, ok := r.(*ssa.Store); ok && st.Addr == ssa.Value(fv) {
									for _, ld := range loads {
										if isInc(st.Val, ld) {
											isCounter = true
										}
									}
								}
							}
							if !isCounter {
								continue
							}
							it.counter = true
							for _, lb := range lit.Blocks {
								for _, li := range lb.Instrs {
									if ia, ok := li.(*ssa.IndexAddr); ok {
										for _, ld := range loads {
											if ia.Index == ld || isConvOf(ia.Index, ld) {
												it.counterIndexes = true
											}
										}
									}
								}
							}
						}
						for _, lb := range lit.Blocks {
							for _, li := range lb.Instrs {
								if call, ok := li.(*ssa.Call); ok {
									if bl, ok := call.Call.Value.(*ssa.Builtin); ok && bl.Name() == "append" {
										it.append = true
									}
								}
							}
						}
						groups[id] = append(groups[id], it)
					}
				}
			}
		}
		for id, its := range groups {
			if len(its) < 2 {
				continue
			}
			for i, a := range its {
				if !a.counterIndexes {
					continue
				}
				for j, b := range its {
					if i == j || !(b.counter || b.append) {
						continue
					}
					per[pkg] = append(per[pkg], lintHit{w.At(a.at), "this walk over " + strings.TrimPrefix(id, "foreach:") + " indexes by its running position what another walk over the same unordered collection (" + w.At(b.at) + ") produced in its own order: the two orders differ (map iteration is randomised per walk), so position k here is another element there"})
				}
			}
		}
	}
	for p := range per {
		per[p] = dedupeHits(per[p])
	}
	emitLint(c, "MAPORDER", "two-walks-by-position", seen, per, func(p string) []string {
		if strings.HasSuffix(p, "/cluster") {
			return []string{"C15"}
		}
		return nil
	})
}

func dedupeHits(hs []lintHit) []lintHit {
	seen := map[string]bool{}
	var out []lintHit
	for _, h := range hs {
		if !seen[h.where] {
			seen[h.where] = true
			out = append(out, h)
		}
	}
	return out
}

func isConvOf(v ssa.Value, of ssa.Value) bool {
	if cv, ok := v.(*ssa.Convert); ok {
		return cv.X == of
	}
	return false
}

func staticTargetOf(cc *ssa.CallCommon) *ssa.Function {
	if g := cc.StaticCallee(); g != nil {
		return g
	}
	if mc, ok := cc.Value.(*ssa.MakeClosure); ok {
		g, _ := mc.Fn.(*ssa.Function)
		return g
	}
	return nil
}

// GLOBROOT: filepath.Glob is given a pattern that contains a path which is not a constant (a
// configured directory). A '[' , '*' or '?' in that path is read as a pattern: the glob silently
// matches nothing and whatever was to be found there (shard files to move) is skipped without error.
func GlobRoot(w *load.World, c *core.Collector) {
	per := map[string][]lintHit{}
	seen := map[string]bool{}
	for _, f := range w.Fns {
		if !load.InMod(f) || f.Synthetic != "" {
			continue
		}
		pkg := load.PkgPath(f)
		seen[pkg] = true
		for _, b := range f.Blocks {
			for _, in := range b.Instrs {
				call, ok := in.(*ssa.Call)
				if !ok || staticName(call) != "path/filepath.Glob" || len(call.Call.Args) != 1 {
					continue
				}
				if _, isC := call.Call.Args[0].(*ssa.Const); isC {
					continue
				}
				o := provDeep(w, call.Call.Args[0])
				variable := false
				for k := range o {
					if strings.HasPrefix(k, "field:") || strings.HasPrefix(k, "param:") || strings.Contains(k, "freevar:") {
						variable = true
					}
				}
				if variable {
					per[pkg] = append(per[pkg], lintHit{w.At(in), "filepath.Glob is given a pattern built from a directory that is not a constant: a '[', '*' or '?' in that directory's name is read as part of the pattern, the glob matches nothing and reports no error"})
				}
			}
		}
	}
	emitLint(c, "GLOBROOT", "pattern-from-path", seen, per, func(p string) []string {
		if strings.HasSuffix(p, "/cluster") {
			return []string{"C14"}
		}
		return nil
	})
}

// fieldOfValue: the struct field a value is read from (also as an element of a slice field, or
// through a range over it): type name and field name, or "".
func fieldOfValue(v ssa.Value) (string, string) {
	for i := 0; i < 8 && v != nil; i++ {
		switch x := v.(type) {
		case *ssa.UnOp:
			v = x.X
		case *ssa.IndexAddr:
			v = x.X
		case *ssa.Index:
			v = x.X
		case *ssa.Field:
			if st := ssax.StructOf(x.X.Type()); st != nil {
				return ssax.TypeName(x.X.Type()), st.Field(x.Field).Name()
			}
			return "", ""
		case *ssa.FieldAddr:
			if st := ssax.StructOf(x.X.Type()); st != nil {
				return ssax.TypeName(x.X.Type()), st.Field(x.Field).Name()
			}
			return "", ""
		case *ssa.Extract:
			v = x.Tuple
		case *ssa.Next:
			v = x.Iter
		case *ssa.Range:
			v = x.X
		case *ssa.Phi:
			if len(x.Edges) == 0 {
				return "", ""
			}
			v = x.Edges[len(x.Edges)-1]
		case *ssa.Alloc:
			sv := ssax.SingleStore(x)
			if sv == nil {
				return "", ""
			}
			v = sv
		default:
			return "", ""
		}
	}
	return "", ""
}

// mustParseValidated: every uuid.MustParse in the HTTP handlers is applied to a request field
// whose type's Validate parses that very field (so that a malformed id is a 400 from validation,
// not a panic in the handler). A validator that parses the id only "when it is required" lets an
// optional, present, malformed id through to MustParse.
func mustParseValidated(w *load.World, c *core.Collector) {
	props := []string{"C18"}
	isParse := func(call *ssa.Call) bool {
		n := staticName(call)
		return n == "github.com/google/uuid.Parse" || n == "github.com/google/uuid.ParseBytes" || n == "github.com/google/uuid.Validate"
	}
	// does fn (a Validate method or a helper it calls with the field at parameter pi, -1 for the
	// receiver's own field) reach a Parse of the field, given constant arguments
	var parses func(fn *ssa.Function, tname, fname string, pi int, consts map[int]bool, depth int) bool
	parses = func(fn *ssa.Function, tname, fname string, pi int, consts map[int]bool, depth int) bool {
		if depth > 3 || len(fn.Blocks) == 0 {
			return false
		}
		// reachable blocks, pruning branches on parameters whose value is known
		reach := map[*ssa.BasicBlock]bool{}
		work := []*ssa.BasicBlock{fn.Blocks[0]}
		for len(work) > 0 {
			b := work[0]
			work = work[1:]
			if reach[b] {
				continue
			}
			reach[b] = true
			if ifi, ok := b.Instrs[len(b.Instrs)-1].(*ssa.If); ok {
				cond, neg := ifi.Cond, false
				if u, ok := cond.(*ssa.UnOp); ok && u.Op == token.NOT {
					cond, neg = u.X, true
				}
				if p, ok := cond.(*ssa.Parameter); ok {
					known := false
					for i, q := range fn.Params {
						if q == p {
							if v, has := consts[i]; has {
								known = true
								if v != neg {
									work = append(work, b.Succs[0])
								} else {
									work = append(work, b.Succs[1])
								}
							}
						}
					}
					if known {
						continue
					}
				}
			}
			work = append(work, b.Succs...)
		}
		isField := func(v ssa.Value) bool {
			if pi >= 0 {
				return peelToParam(v) == ssa.Value(fn.Params[pi])
			}
			t, f := fieldOfValue(v)
			return t == tname && f == fname
		}
		for b := range reach {
			for _, in := range b.Instrs {
				call, ok := in.(*ssa.Call)
				if !ok {
					continue
				}
				if isParse(call) && len(call.Call.Args) > 0 && isField(call.Call.Args[0]) {
					return true
				}
				h := call.Call.StaticCallee()
				if h == nil || !ssax.InModule(h) || h == fn {
					continue
				}
				for ai, a := range call.Call.Args {
					if !isField(a) || ai >= len(h.Params) {
						continue
					}
					cs := map[int]bool{}
					for aj, aa := range call.Call.Args {
						if v, isC := ssax.ConstBool(aa); isC {
							cs[aj] = v
						}
					}
					if parses(h, tname, fname, ai, cs, depth+1) {
						return true
					}
				}
			}
		}
		return false
	}
	n := 0
	perFn := map[*ssa.Function]int{}
	for _, f := range w.Fns {
		if !load.InMod(f) || !strings.Contains(load.PkgPath(f), "/httpapi") || f.Synthetic != "" {
			continue
		}
		for _, b := range f.Blocks {
			for _, in := range b.Instrs {
				call, ok := in.(*ssa.Call)
				if !ok || staticName(call) != "github.com/google/uuid.MustParse" || len(call.Call.Args) != 1 {
					continue
				}
				if _, isC := call.Call.Args[0].(*ssa.Const); isC {
					continue
				}
				n++
				perFn[f]++
				tname, fname := fieldOfValue(call.Call.Args[0])
				key := fmt.Sprintf("must-parse-validated:%s#%d", load.FnKey(f), perFn[f])
				if tname == "" {
					c.Add("VALID", key, core.Undecided, w.At(in), "cannot tell which request field uuid.MustParse is applied to", props...)
					continue
				}
				var val *ssa.Function
				for _, g := range w.Fns {
					if g.Name() == "Validate" && g.Signature.Recv() != nil && g.Synthetic == "" && ssax.TypeName(g.Signature.Recv().Type()) == tname {
						val = g
					}
				}
				if val != nil && parses(val, tname, fname, -1, nil, 0) {
					c.Add("VALID", key, core.OK, w.At(in), tname+"."+fname, props...)
				} else {
					c.Add("VALID", key, core.Violation, w.At(in), "uuid.MustParse is applied to "+tname+"."+fname+", which the request's Validate does not parse on every path that lets a non-empty value through (the check sits behind a flag that is false for this request type): a malformed id panics in the handler instead of being refused with 400", props...)
				}
			}
		}
	}
	if n < 3 {
		c.Add("VALID", "anchor:must-parse", core.Undecided, "", fmt.Sprintf("found %d uuid.MustParse calls in the http handlers, expected at least 3", n), props...)
	}
}

// codecReadsBody: net/rpc calls ReadRequestBody / ReadResponseBody with nil to mean "read the body
// and throw it away". Every successful return of the two methods comes after a call on the
// decoder: returning early for a nil body leaves the body in the stream, where its bytes are
// taken for the next header — a call that is still pending is completed with a zero reply.
func codecReadsBody(w *load.World, c *core.Collector) {
	props := []string{"C17"}
	n := 0
	for _, f := range w.Fns {
		if load.PkgPath(f) != load.Mod+"/cluster/mrpc" || f.Synthetic != "" || f.Signature.Recv() == nil {
			continue
		}
		if f.Name() != "ReadRequestBody" && f.Name() != "ReadResponseBody" {
			continue
		}
		n++
		dec := map[*ssa.BasicBlock]bool{}
		for _, b := range f.Blocks {
			for _, in := range b.Instrs {
				if call, ok := in.(*ssa.Call); ok {
					if g := call.Call.StaticCallee(); g != nil && strings.Contains(g.String(), "msgpack") && (strings.HasPrefix(g.Name(), "Decode") || g.Name() == "Skip") {
						dec[b] = true
					}
				}
			}
		}
		bad := ""
		for _, ex := range successExits(f) {
			// reachable from the entry without a decode?
			seenB := map[*ssa.BasicBlock]bool{}
			var dfs func(x *ssa.BasicBlock) bool
			dfs = func(x *ssa.BasicBlock) bool {
				if dec[x] || seenB[x] {
					return false
				}
				seenB[x] = true
				if x == ex.In.Block() {
					return true
				}
				for _, s := range x.Succs {
					if dfs(s) {
						return true
					}
				}
				return false
			}
			if dfs(f.Blocks[0]) {
				bad = w.At(ex.In)
			}
		}
		key := "codec-reads-body:" + f.Name()
		if bad != "" {
			c.Add("FANOUT", key, core.Violation, bad, "the codec can report a body as read without having read it (an early return for a nil destination): net/rpc passes nil to have the body discarded, the bytes stay in the stream and are decoded as the next header, and a pending call is completed with an empty reply — a shard's answer is silently missing from a fan-out", props...)
		} else {
			c.Add("FANOUT", key, core.OK, w.Position(f.Pos()), "", props...)
		}
	}
	if n < 2 {
		c.Add("FANOUT", "anchor:codec-bodies", core.Undecided, "", fmt.Sprintf("found %d body readers of the rpc codec, expected 2", n), props...)
	}
}

// DEADLINE: a deadline is set on a connection (for a handshake) and the connection is handed on
// without the deadline having been cleared: every later read or write on it fails once the
// deadline has passed, whatever it was doing.
func Deadline(w *load.World, c *core.Collector) {
	per := map[string][]lintHit{}
	seen := map[string]bool{}
	isSet := func(in ssa.Instruction) (recv ssa.Value, zero bool, ok bool) {
		call, isCall := in.(*ssa.Call)
		if !isCall {
			return nil, false, false
		}
		name := ""
		var args []ssa.Value
		if call.Call.IsInvoke() {
			name, recv, args = call.Call.Method.Name(), call.Call.Value, call.Call.Args
		} else if g := call.Call.StaticCallee(); g != nil && g.Signature.Recv() != nil && len(call.Call.Args) > 0 {
			name, recv, args = g.Name(), call.Call.Args[0], call.Call.Args[1:]
		}
		if name != "SetDeadline" && name != "SetReadDeadline" && name != "SetWriteDeadline" || len(args) != 1 {
			return nil, false, false
		}
		// time.Time{}: a zero-valued struct (a load of a zeroed local, or a constant)
		z := false
		switch a := args[0].(type) {
		case *ssa.Const:
			z = true
		case *ssa.UnOp:
			if al, isAl := a.X.(*ssa.Alloc); isAl {
				z = true
				for _, r := range *al.Referrers() {
					if st, isSt := r.(*ssa.Store); isSt && st.Addr == ssa.Value(al) {
						z = false
					}
				}
			}
		}
		return recv, z, true
	}
	for _, f := range w.Fns {
		if !load.InMod(f) || f.Synthetic != "" {
			continue
		}
		pkg := load.PkgPath(f)
		seen[pkg] = true
		for _, b := range f.Blocks {
			for _, in := range b.Instrs {
				recv, zero, ok := isSet(in)
				if !ok || zero {
					continue
				}
				// is the connection handed on (returned, stored, given to a constructor) after this?
				target := map[ssa.Instruction]bool{}
				for _, bb := range f.Blocks {
					if r, isRet := bb.Instrs[len(bb.Instrs)-1].(*ssa.Return); isRet {
						n := len(r.Results)
						if n > 0 && isErrorType(r.Results[n-1].Type()) && nonNilError(r.Results[n-1], bb) {
							continue
						}
						target[r] = true
					}
				}
				blocked := map[ssa.Instruction]bool{}
				for _, bb := range f.Blocks {
					for _, ii := range bb.Instrs {
						if r2, z2, ok2 := isSet(ii); ok2 && z2 && r2 == recv {
							blocked[ii] = true
						}
					}
				}
				if hit := reachesInstrWithout(in, target, blocked); hit != nil {
					per[pkg] = append(per[pkg], lintHit{w.At(in), "a deadline is set on the connection here and the function can return successfully at " + w.At(hit) + " without having cleared it: once the deadline passes every read and write on the connection fails, whatever call is in flight"})
				}
			}
		}
	}
	emitLint(c, "DEADLINE", "never-cleared", seen, per, func(p string) []string {
		if strings.Contains(p, "/cluster") {
			return []string{"C17"}
		}
		return nil
	})
}

// sizeFromLen: the byte view the raw codecs lay over a vector is as long as the vector (len), not
// as its backing array (cap): a vector sliced from a larger buffer would otherwise be encoded
// together with what follows it.
func sizeFromLen(w *load.World, c *core.Collector) {
	props := []string{"C19"}
	bad := ""
	n := 0
	for _, f := range w.Fns {
		if load.PkgPath(f) != load.Mod+"/conversion" || f.Synthetic != "" {
			continue
		}
		for _, b := range f.Blocks {
			for _, in := range b.Instrs {
				call, ok := in.(*ssa.Call)
				if !ok {
					continue
				}
				if bi, ok := call.Call.Value.(*ssa.Builtin); ok {
					if bi.Name() == "len" {
						n++
					}
					if bi.Name() == "cap" {
						if _, isParam := peelToParam(call.Call.Args[0]).(*ssa.Parameter); isParam {
							bad = w.At(in)
						}
					}
				}
			}
		}
	}
	if bad != "" {
		c.Add("LAYOUT", "size-from-len", core.Violation, bad, "a codec sizes its output by the capacity of its argument, not by its length: a vector that is a slice of a larger buffer is encoded together with the elements behind it and decodes to a longer vector", props...)
	} else {
		c.Add("LAYOUT", "size-from-len", core.OK, "", fmt.Sprintf("%d length computations", n), props...)
	}
}

// neighboursReadAfterLoad: a graph node's cached neighbour list is filled lazily; a node that was
// only read from the bucket has its edge ids and an empty list. Outside the node's own methods the
// list is read only after LoadNeighbours was called on that node in the same function (or on a
// node the function has just built): code that takes the list as it is sees nothing on a cold
// cache, and a prune that starts from "the neighbours that stay" then drops every surviving edge.
func neighboursReadAfterLoad(w *load.World, c *core.Collector) {
	props := []string{"C08", "C03", "C10"}
	n := 0
	isNodeMethod := func(f *ssa.Function) bool {
		return f.Signature.Recv() != nil && strings.HasSuffix(ssax.TypeName(f.Signature.Recv().Type()), "graphNode")
	}
	// a method of the node that hands the receiver's list to a function it was given (a "with the
	// neighbours, under the lock" accessor): its call is a read of that node's list
	accessor := map[*ssa.Function]bool{}
	for _, f := range w.Fns {
		if load.PkgPath(f) != load.Mod+"/shard/index/vamana" || !isNodeMethod(f) || len(f.Params) < 2 {
			continue
		}
		for _, b := range f.Blocks {
			for _, in := range b.Instrs {
				call, ok := in.(*ssa.Call)
				if !ok || call.Call.IsInvoke() {
					continue
				}
				if p, ok := call.Call.Value.(*ssa.Parameter); !ok || p.Parent() != f {
					continue
				}
				for _, a := range call.Call.Args {
					if ld, ok := a.(*ssa.UnOp); ok && ld.Op == token.MUL {
						if fa, ok := ld.X.(*ssa.FieldAddr); ok && fieldOf(fa) == "vamana.graphNode.neighbours" && fa.X == f.Params[0] {
							accessor[f] = true
						}
					}
				}
			}
		}
	}
	for _, f := range w.Fns {
		if load.PkgPath(f) != load.Mod+"/shard/index/vamana" || f.Synthetic != "" {
			continue
		}
		if isNodeMethod(f) {
			continue
		}
		bad := ""
		cnt := 0
		for _, b := range f.Blocks {
			for _, in := range b.Instrs {
				var node ssa.Value
				if ld, ok := in.(*ssa.UnOp); ok && ld.Op == token.MUL {
					if fa, ok := ld.X.(*ssa.FieldAddr); ok && fieldOf(fa) == "vamana.graphNode.neighbours" {
						node = fa.X
					}
				} else if call, ok := in.(*ssa.Call); ok && !call.Call.IsInvoke() && accessor[call.Call.StaticCallee()] && len(call.Call.Args) > 0 {
					node = call.Call.Args[0]
				}
				if node == nil {
					continue
				}
				fa := struct{ X ssa.Value }{node}
				cnt++
				np, fresh := ssax.Path(fa.X)
				if fresh {
					continue
				}
				loaded := false
				for _, bb := range f.Blocks {
					for _, ii := range bb.Instrs {
						call, ok := ii.(*ssa.Call)
						if !ok || call.Call.StaticCallee() == nil || call.Call.StaticCallee().Name() != "LoadNeighbours" || len(call.Call.Args) == 0 {
							continue
						}
						cp, _ := ssax.Path(call.Call.Args[0])
						if (call.Call.Args[0] == fa.X || (cp != "" && cp == np)) && ssax.Precedes(ii, in) {
							loaded = true
						}
					}
				}
				if !loaded {
					bad = w.At(in)
				}
			}
		}
		if cnt == 0 {
			continue
		}
		n++
		key := "neighbours-read-after-load:" + load.FnKey(f)
		if bad != "" {
			c.Add("ORDERING", key, core.Violation, bad, "a node's cached neighbour list is read without LoadNeighbours having been called on that node in this function: on a cold cache the list of a node read from the bucket is empty although its edge list is not, so what is computed from it (the candidates that survive a prune) differs between a warm and a cold cache and the truncated result is committed", props...)
		} else {
			c.Add("ORDERING", key, core.OK, w.Position(f.Pos()), "", props...)
		}
	}
	if n < 2 {
		c.Add("ORDERING", "anchor:neighbour-reads", core.Undecided, "", fmt.Sprintf("found %d functions outside the node's methods that read a node's neighbour list, expected at least 2", n), props...)
	}
}

// POOLRESET: an object that comes out of a sync.Pool is wiped as a whole before it is used —
// where it is taken, in the function it is handed to, or by every function that puts one back. A
// wipe of a part of it ("the words that can be touched") leaves bits of the previous user, which
// may be another tenant's search, in the rest.
func PoolReset(w *load.World, c *core.Collector) {
	per := map[string][]lintHit{}
	seen := map[string]bool{}
	isFullReset := func(in ssa.Instruction, obj ssa.Value, alias func(ssa.Value) bool) bool {
		call, ok := in.(*ssa.Call)
		if !ok {
			return false
		}
		if bi, ok := call.Call.Value.(*ssa.Builtin); ok {
			return bi.Name() == "clear" && len(call.Call.Args) == 1 && alias(call.Call.Args[0])
		}
		g := call.Call.StaticCallee()
		if g == nil || g.Signature.Recv() == nil || len(call.Call.Args) == 0 || !alias(call.Call.Args[0]) {
			return false
		}
		nm := g.Name()
		return nm == "ClearAll" || nm == "Reset" || nm == "Clear" || strings.HasPrefix(nm, "Reset")
	}
	aliasOf := func(obj ssa.Value) func(ssa.Value) bool {
		return func(v ssa.Value) bool {
			for i := 0; i < 4 && v != nil; i++ {
				if v == obj {
					return true
				}
				switch x := v.(type) {
				case *ssa.ChangeType:
					v = x.X
				case *ssa.MakeInterface:
					v = x.X
				case *ssa.Phi:
					if len(x.Edges) == 1 {
						v = x.Edges[0]
					} else {
						return false
					}
				default:
					return false
				}
			}
			return false
		}
	}
	resetsIn := func(f *ssa.Function, obj ssa.Value) bool {
		al := aliasOf(obj)
		for _, b := range f.Blocks {
			for _, in := range b.Instrs {
				if isFullReset(in, obj, al) {
					return true
				}
			}
		}
		return false
	}
	// do all Put sites of objects of type t reset what they put?
	putsReset := func(t types.Type) (all bool, any bool) {
		all = true
		for _, f := range w.Fns {
			if !load.InMod(f) {
				continue
			}
			for _, b := range f.Blocks {
				for _, in := range b.Instrs {
					ci, ok := in.(ssa.CallInstruction)
					if !ok || staticName(ci) != "(*sync.Pool).Put" || len(ci.Common().Args) < 2 {
						continue
					}
					v := ci.Common().Args[1]
					if mi, ok := v.(*ssa.MakeInterface); ok {
						v = mi.X
					}
					if !types.Identical(v.Type(), t) {
						continue
					}
					any = true
					// reset of the very value, or of the field it was loaded from
					ok2 := resetsIn(f, v)
					if ld, isLd := v.(*ssa.UnOp); isLd && !ok2 {
						for _, bb := range f.Blocks {
							for _, ii := range bb.Instrs {
								if l2, ok := ii.(*ssa.UnOp); ok && l2.X == ld.X && resetsIn(f, l2) {
									ok2 = true
								}
							}
						}
					}
					if !ok2 {
						all = false
					}
				}
			}
		}
		return
	}
	for _, f := range w.Fns {
		if !load.InMod(f) || f.Synthetic != "" {
			continue
		}
		pkg := load.PkgPath(f)
		seen[pkg] = true
		for _, b := range f.Blocks {
			for _, in := range b.Instrs {
				ta, ok := in.(*ssa.TypeAssert)
				if !ok {
					continue
				}
				call, ok := ta.X.(*ssa.Call)
				if !ok || staticName(call) != "(*sync.Pool).Get" {
					continue
				}
				var obj ssa.Value = ta
				if ta.CommaOk {
					continue
				}
				atGet := resetsIn(f, obj)
				if !atGet {
					for _, r := range *obj.Referrers() {
						ci, ok := r.(ssa.CallInstruction)
						if !ok {
							continue
						}
						h := ci.Common().StaticCallee()
						if h == nil || !ssax.InModule(h) || len(h.Blocks) == 0 {
							continue
						}
						for ai, a := range ci.Common().Args {
							if a == obj && ai < len(h.Params) && resetsIn(h, h.Params[ai]) {
								atGet = true
							}
						}
					}
				}
				if atGet {
					continue
				}
				if all, any := putsReset(obj.Type()); any && all {
					continue
				}
				per[pkg] = append(per[pkg], lintHit{w.At(in), "an object is taken from a sync.Pool and neither wiped as a whole before use (here or in the function it is handed to) nor by every function that puts one back: what the previous user left in it — another search, possibly another tenant's — is still there (a partial wipe covers only part of it)"})
			}
		}
	}
	emitLint(c, "POOLRESET", "not-wiped", seen, per, func(p string) []string {
		if strings.HasSuffix(p, "/shard/index/vamana") {
			return []string{"C16", "C03"}
		}
		return nil
	})
}
